// Package c03: access decisions are enforced on every operation.
//
// Access matrix: endpoint catalogue (props/catalog, plus copy / batch variants
// defined here) x caller {root, admin, userplus, user} x {bucket owner, not owner}
// x generated access configuration of the target bucket (and of the copy-source
// bucket): either no policy + a generated ACL, or a generated bucket policy of
// 1-4 statements. Every request carries a valid signature and a valid body.
//
// Reference decision (model.go), written from the property statement. Verdict:
//
//	reference = deny  => the answer must be an error (2xx = violation), the byte-exact
//	                     snapshot of the whole store (root, versions, sidecar, iam) must be
//	                     unchanged, no seed canary may appear in the answer; for a batch
//	                     delete every denied key must still exist;
//	reference = allow but refused => over-denial, observation only ("only if" property).
//
// A case counts as non-trivial only if the same operation by root succeeds on
// that state (readers: probed in every case; mutators: probed once per endpoint
// and configuration class, store restored afterwards).
//
// Signatures: <entry>:<policy|acl>:<caller role>-<owner|nonowner|nobucket>:<kind>:expl=<explanation>,
// kind = allowed-but-reference-denies | tree-changed | data-disclosed | batch-key-deleted; the
// explanation names the alternative (action, resource, permission, bucket) under
// which the reference would have allowed the request - i.e. what the call site
// probably evaluated - or "none".
package c03

import (
	"encoding/xml"
	"fmt"
	"math/rand"
	"os"
	"sort"
	"strings"
	"sync"
	"time"

	"verif/harness/internal/ev"
	"verif/harness/internal/fx"
	"verif/harness/internal/gw"
	"verif/harness/internal/reg"
	"verif/harness/internal/s3c"
	"verif/harness/internal/snap"
	"verif/harness/props/catalog"
)

func init() { reg.Register("C03", "exploration", Run) }

const nWorkers = 8

type account struct{ ak, sk, role string }

// variant is a catalogue entry, possibly with other arguments than the default binding.
type variant struct {
	name      string
	e         *catalog.Entry
	mod       func(st *catalog.State, a *catalog.Args)
	srcAction string                                      // overrides e.SrcAction
	batch     func(st *catalog.State, x *extras) []bentry // DeleteObjects body built by the check (vbatch.go)
}

func variants() []variant {
	var vs []variant
	for _, e := range catalog.All() {
		vs = append(vs, variant{name: e.Name, e: e})
	}
	by := catalog.ByName
	// copies with the source in the OTHER bucket, with and without ?versionId=
	vs = append(vs,
		variant{name: "copy-object+srcversion", e: by("copy-object"), srcAction: "s3:GetObjectVersion", mod: func(st *catalog.State, a *catalog.Args) {
			a.Bucket, a.Key, a.SrcBucket, a.SrcKey, a.SrcVersionID = st.Plain, "cnry-copied-v.txt", st.Vers, st.V2.Key, st.V2.VersionID
		}},
		variant{name: "upload-part-copy+othersrc", e: by("upload-part-copy"), mod: func(st *catalog.State, a *catalog.Args) {
			a.SrcBucket, a.SrcKey = st.Vers, st.V2.Key
		}},
		variant{name: "upload-part-copy+srcversion", e: by("upload-part-copy"), srcAction: "s3:GetObjectVersion", mod: func(st *catalog.State, a *catalog.Args) {
			a.SrcBucket, a.SrcKey, a.SrcVersionID = st.Vers, st.V1.Key, st.V1.VersionID
		}},
		// batch delete over three keys of different prefixes
		variant{name: "delete-objects+3keys", e: by("delete-objects"), mod: func(st *catalog.State, a *catalog.Args) {
			a.DelKeys = []string{st.Obj.Key, st.Nested.Key, st.Dir.Key}
		}},
	)
	return append(vs, batchShapes()...)
}

func (v *variant) args(st *catalog.State) catalog.Args {
	a := v.e.Bind(st)
	if v.mod != nil {
		v.mod(st, &a)
	}
	return a
}

func (v *variant) srcAct() string {
	if v.srcAction != "" {
		return v.srcAction
	}
	return v.e.SrcAction
}

// setup of one bucket for a case
type bucketSetup struct {
	Bucket string
	Owner  string
	Policy *policy // nil: no policy
	ACL    aclSpec
}

type kase struct {
	id      string
	v       *variant
	a       catalog.Args
	role    string // root | admin | userplus | user
	who     account
	owner   bool
	setups  []bucketSetup // target, source, decoy
	decoy   string
	tClass  string // class drawn for the target bucket
	tShape  string
	involve []string
	batch   []bentry // entries of a batch delete over the versioned bucket (nil: the catalogue's body)
}

type worker struct {
	c   *ev.Ctx
	idx int
	vs  []*variant
	scs []*scenario
	all map[string]*variant
	ai  *actionInfo
	n   int // cases per variant

	store *gw.Store
	tmpl  string
	env   *fx.Env
	st    *catalog.State
	x     *extras
	root  *s3c.Client
	acc   map[string]account
	world map[string]*bcfg
	base  snap.Snap

	canaries []string
	liveW    map[string]bool
	avoid    map[string]bool // exact action names the gateway refuses in a policy document
	broken   bool
	refused  bool // the last case was skipped because the gateway refused its policy document
}

const otherAK, otherSK = "c03other", "C03secretOfOther000004"

func okOr(what string, r *s3c.Resp, also ...int) error {
	if r.OK() {
		return nil
	}
	for _, s := range also {
		if r.Err == nil && r.Status == s {
			return nil
		}
	}
	b := r.Body
	if len(b) > 200 {
		b = b[:200]
	}
	return fmt.Errorf("%s: %s %s", what, r.String(), b)
}

func (w *worker) templateWorld() map[string]*bcfg {
	st := w.st
	seeded := &policy{Stmts: []stmt{{Effect: "Allow", Principals: []string{st.UserPlus.Access}, Actions: []string{"s3:GetObject"}, Resources: []string{st.Plain + "/*"}}},
		Text: catalog.PolicyJSON(st.PolicySid, st.UserPlus.Access, st.Plain)}
	return map[string]*bcfg{
		st.Plain: {Owner: gw.RootAK, Policy: seeded, Grants: []grant{{st.User.Access, "READ"}}},
		st.Vers:  {Owner: st.UserPlus.Access},
		st.Lock:  {Owner: gw.RootAK},
		st.Empty: {Owner: st.User.Access},
	}
}

func (w *worker) start() error {
	st, err := gw.NewStore(fx.UniqueDir(fmt.Sprintf("c03-w%d", w.idx)))
	if err != nil {
		return err
	}
	w.store = st
	env, err := fx.OnStore(fmt.Sprintf("c03w%d", w.idx), st, gw.Config{Versioning: true}, 1)
	if err != nil {
		os.RemoveAll(st.Base)
		return err
	}
	w.env = env
	if w.st, err = catalog.Seed(env); err != nil {
		return err
	}
	root := env.Client(0)
	if err := okOr("create other", env.CreateUser(otherAK, otherSK, "user", 0, 0)); err != nil {
		return err
	}
	// ACLs need an ownership setting other than BucketOwnerEnforced
	for _, b := range []string{w.st.Vers, w.st.Lock, w.st.Empty} {
		if err := okOr("ownership "+b, root.Sub("PUT", b, "", "ownershipControls", []byte(catalog.OwnershipXML("BucketOwnerPreferred")))); err != nil {
			return err
		}
	}
	// which exact action names does the gateway accept in a policy document? (generator input, not oracle)
	for _, a := range w.ai.names {
		r := root.Sub("PUT", w.st.Empty, "", "policy", []byte(fmt.Sprintf(
			`{"Statement":[{"Effect":"Allow","Principal":"*","Action":%q,"Resource":["arn:aws:s3:::%s","arn:aws:s3:::%s/*"]}]}`, a, w.st.Empty, w.st.Empty)))
		if !r.OK() {
			w.avoid[a] = true
			w.c.Observe("action name not accepted in a policy document: " + a + " (" + r.ErrCode() + ")")
		}
	}
	if err := okOr("delete probe policy", root.Sub("DELETE", w.st.Empty, "", "policy", nil)); err != nil {
		return err
	}
	if err := w.seedExtras(root); err != nil {
		return err
	}
	w.acc = map[string]account{
		"root":     {gw.RootAK, gw.RootSK, "root"},
		"admin":    {w.st.Admin.Access, w.st.Admin.Secret, "admin"},
		"userplus": {w.st.UserPlus.Access, w.st.UserPlus.Secret, "userplus"},
		"user":     {w.st.User.Access, w.st.User.Secret, "user"},
		"other":    {otherAK, otherSK, "user"},
	}
	w.canaries = append(w.st.Canaries(), otherSK)
	env.GWs[0].Stop()
	w.tmpl = fx.UniqueDir(fmt.Sprintf("c03-w%d-template", w.idx))
	if err := snap.CopyTree(st.Base, w.tmpl); err != nil {
		return err
	}
	if err := env.Restart(0); err != nil {
		return err
	}
	w.root = env.Client(0)
	w.world = w.templateWorld()
	w.base, err = snap.Take(st.Base, nil)
	return err
}

func (w *worker) close() {
	if w.env != nil {
		w.env.Close()
	}
	if w.store != nil {
		os.RemoveAll(w.store.Base)
	}
	if w.tmpl != "" {
		os.RemoveAll(w.tmpl)
	}
}

func (w *worker) restore() bool {
	w.c.Add("store_restores", 1)
	w.env.GWs[0].Kill()
	err := os.RemoveAll(w.store.Base)
	if err == nil {
		err = snap.CopyTree(w.tmpl, w.store.Base)
	}
	if err == nil {
		err = w.env.Restart(0)
	}
	if err == nil {
		var s snap.Snap
		if s, err = snap.Take(w.store.Base, nil); err == nil {
			if d := snap.Diff(w.base, s); len(d) > 0 {
				err = fmt.Errorf("restored store differs from the template: %s", d[0])
			}
		}
	}
	if err != nil {
		w.c.Inconclusive("store restore failed: " + err.Error())
		w.broken = true
		return false
	}
	w.root = w.env.Client(0)
	w.world = w.templateWorld()
	return true
}

func (w *worker) snapshot() snap.Snap {
	s, err := snap.Take(w.store.Base, nil)
	if err != nil {
		w.c.Inconclusive("snapshot: " + err.Error())
	}
	return s
}

// stableDiff re-reads a difference so that a temp file of an unwinding handler is not mistaken for an effect.
func (w *worker) stableDiff(before snap.Snap) (snap.Snap, []string) {
	for try := 0; ; try++ {
		s := w.snapshot()
		d := snap.Diff(before, s)
		if len(d) == 0 || try == 2 {
			return s, d
		}
		time.Sleep(40 * time.Millisecond)
	}
}

// ---------------------------------------------------------------------------
// applying and verifying an access configuration (as root)

func aclXML(owner string, gs []grant) string {
	var sb strings.Builder
	sb.WriteString(`<AccessControlPolicy xmlns="http://s3.amazonaws.com/doc/2006-03-01/"><Owner><ID>` + owner + `</ID></Owner><AccessControlList>`)
	for _, g := range gs {
		sb.WriteString(`<Grant><Grantee xmlns:xsi="http://www.w3.org/2001/XMLSchema-instance" xsi:type="CanonicalUser"><ID>` + g.Who + `</ID></Grantee><Permission>` + g.Perm + `</Permission></Grant>`)
	}
	sb.WriteString(`</AccessControlList></AccessControlPolicy>`)
	return sb.String()
}

var grantHeader = map[string]string{"READ": "X-Amz-Grant-Read", "WRITE": "X-Amz-Grant-Write", "READ_ACP": "X-Amz-Grant-Read-Acp",
	"WRITE_ACP": "X-Amz-Grant-Write-Acp", "FULL_CONTROL": "X-Amz-Grant-Full-Control"}

func (w *worker) putACL(b, owner string, spec aclSpec) error {
	rq := &s3c.Req{Method: "PUT", Path: s3c.BucketPath(b), Query: "acl"}
	switch spec.Syntax {
	case "canned":
		rq.Header = s3c.H{{"X-Amz-Acl", spec.Canned}}
	case "headers":
		by := map[string][]string{}
		for _, g := range spec.Grants {
			by[g.Perm] = append(by[g.Perm], g.Who)
		}
		for _, p := range perms {
			if len(by[p]) > 0 {
				rq.Header = append(rq.Header, [2]string{grantHeader[p], strings.Join(by[p], ",")})
			}
		}
	default:
		rq.Body = []byte(aclXML(owner, spec.Grants))
	}
	return okOr("put acl "+b, w.root.Do(rq))
}

func (w *worker) apply(s bucketSetup) error {
	cfg := w.world[s.Bucket]
	if cfg == nil {
		return fmt.Errorf("unknown bucket %s", s.Bucket)
	}
	if cfg.Owner != s.Owner {
		if err := okOr("chown "+s.Bucket, w.root.Admin("/change-bucket-owner", s3c.Q("bucket", s.Bucket, "owner", s.Owner), nil)); err != nil {
			return err
		}
		cfg.Owner, cfg.Grants = s.Owner, nil
	}
	if s.Policy == nil {
		if cfg.Policy != nil {
			if err := okOr("delete policy "+s.Bucket, w.root.Sub("DELETE", s.Bucket, "", "policy", nil)); err != nil {
				return err
			}
			cfg.Policy = nil
		}
	} else {
		r := w.root.Sub("PUT", s.Bucket, "", "policy", []byte(s.Policy.Text))
		if !r.OK() {
			return fmt.Errorf("policy refused: %s", r.String())
		}
		cfg.Policy = s.Policy
	}
	if err := w.putACL(s.Bucket, s.Owner, s.ACL); err != nil {
		return err
	}
	cfg.Grants = append([]grant{}, s.ACL.Grants...)
	return nil
}

// verify reads the configuration back as root and compares it with the model of the world.
func (w *worker) verify(b string) error {
	cfg := w.world[b]
	r := w.root.Sub("GET", b, "", "policy", nil)
	switch {
	case cfg.Policy == nil && !(r.Err == nil && r.Status == 404):
		return fmt.Errorf("bucket %s: a policy is present although none was set (%s)", b, r.String())
	case cfg.Policy != nil && (!r.OK() || string(r.Body) != cfg.Policy.Text):
		return fmt.Errorf("bucket %s: stored policy differs from the one set (%s)", b, r.String())
	}
	r = w.root.Sub("GET", b, "", "acl", nil)
	if !r.OK() {
		return fmt.Errorf("bucket %s: acl unreadable (%s)", b, r.String())
	}
	var doc struct {
		Owner             struct{ ID string }
		AccessControlList struct {
			Grant []struct {
				Grantee    struct{ ID string }
				Permission string
			}
		}
	}
	if err := xml.Unmarshal(r.Body, &doc); err != nil {
		return fmt.Errorf("bucket %s: acl unparsable", b)
	}
	want := map[string]bool{cfg.Owner + "/FULL_CONTROL": true}
	for _, g := range cfg.Grants {
		want[g.Who+"/"+g.Perm] = true
	}
	got := map[string]bool{}
	for _, g := range doc.AccessControlList.Grant {
		got[g.Grantee.ID+"/"+g.Permission] = true
	}
	if doc.Owner.ID != cfg.Owner || len(got) != len(want) {
		return fmt.Errorf("bucket %s: acl read back differs: owner %s grants %v, expected owner %s grants %v", b, doc.Owner.ID, keys(got), cfg.Owner, keys(want))
	}
	for k := range want {
		if !got[k] {
			return fmt.Errorf("bucket %s: acl read back lacks %s (has %v)", b, k, keys(got))
		}
	}
	return nil
}

func keys(m map[string]bool) []string {
	var out []string
	for k := range m {
		out = append(out, k)
	}
	sort.Strings(out)
	return out
}

// setup applies and verifies all bucket configurations of a case. "" = fine, otherwise the reason.
func (w *worker) setup(k *kase) string {
	for _, s := range k.setups {
		if err := w.apply(s); err != nil {
			return err.Error()
		}
	}
	for _, s := range k.setups {
		if err := w.verify(s.Bucket); err != nil {
			return "world model mismatch: " + err.Error()
		}
	}
	return ""
}

// ---------------------------------------------------------------------------
// case generation

func (w *worker) targetKeys(a catalog.Args) []string {
	var ks []string
	if len(a.DelKeys) > 0 {
		ks = append(ks, a.DelKeys...)
	} else if a.Key != "" {
		ks = append(ks, a.Key)
	}
	if len(ks) == 0 {
		ks = []string{w.st.Obj.Key, w.st.Nested.Key}
	}
	return ks
}

func (w *worker) genSetup(r *rand.Rand, b string, keys []string, action string, caller account, ownerIsCaller bool) (bucketSetup, string, string) {
	s := bucketSetup{Bucket: b}
	callerName := caller.ak
	if caller.role == "root" {
		callerName = "" // not an IAM account: cannot be named in grants / principals
	}
	// ownership can only be handed to IAM accounts; root owns a bucket only as long as it never changed hands
	x := r.Intn(3)
	switch {
	case ownerIsCaller:
		s.Owner = caller.ak
	case x == 0 && caller.role != "admin":
		s.Owner = w.acc["admin"].ak
	default:
		s.Owner = otherAK
	}
	class, shape := "acl", ""
	if r.Intn(2) == 0 {
		class = "policy"
		s.Policy = genPolicy(r, w.ai, b, keys, action, callerName, otherAK, w.avoid)
		shape = fmt.Sprintf("policy:%dstmt:deny=%v", len(s.Policy.Stmts), s.Policy.hasDeny())
		// the ACL is irrelevant once a policy is set: make it permissive half of the time
		if r.Intn(2) == 0 {
			s.ACL = permissiveACL()
		} else {
			s.ACL = aclSpec{Kind: "private", Canned: "private", Syntax: "canned"}
		}
	} else {
		s.ACL = genACL(r, callerName, otherAK)
		shape = "acl:" + s.ACL.Kind
	}
	return s, class, shape
}

var roles = []string{"userplus", "user", "userplus", "user", "userplus", "user", "userplus", "user", "userplus", "user", "admin", "root"}

func (w *worker) genCase(r *rand.Rand, v *variant, id string) *kase {
	k := &kase{id: id, v: v}
	w.bind(k)
	k.role = roles[r.Intn(len(roles))]
	k.who = w.acc[k.role]
	k.owner = r.Intn(2) == 0
	e := v.e
	hasBucket := (e.Level == catalog.LvlBucket || e.Level == catalog.LvlObject) && k.a.Bucket != w.st.NewBucket
	used := map[string]bool{}
	if hasBucket {
		if k.role == "root" && k.owner {
			// root owns only what it created and never gave away (decided on the template, not on history)
			if w.templateWorld()[k.a.Bucket].Owner != gw.RootAK {
				k.owner = false
			} else if w.world[k.a.Bucket].Owner != gw.RootAK && !w.restore() {
				return nil
			}
		}
		action := e.Action
		if k.batch != nil && r.Intn(2) == 0 {
			action = "s3:DeleteObjectVersion"
		}
		s, class, shape := w.genSetup(r, k.a.Bucket, w.targetKeys(k.a), action, k.who, k.owner)
		if k.batch != nil && s.Policy != nil && r.Intn(2) == 0 {
			// a policy that treats the two delete actions differently, per key
			name := k.who.ak
			if k.role == "root" {
				name = ""
			}
			s.Policy = genSplitPolicy(r, k.a.Bucket, w.targetKeys(k.a), name, otherAK)
			shape = fmt.Sprintf("policy:split:%dstmt:deny=%v", len(s.Policy.Stmts), s.Policy.hasDeny())
		}
		k.owner = s.Owner == k.who.ak
		k.tClass, k.tShape = class, shape
		k.setups = append(k.setups, s)
		used[k.a.Bucket] = true
		if e.Op == "PutBucketAcl" {
			k.a.Owner = s.Owner // the ACL document must name the owner to be valid
		}
	} else {
		k.tClass, k.tShape = []string{"acl", "policy"}[r.Intn(2)], "no-bucket"
	}
	if k.a.SrcBucket != "" && !used[k.a.SrcBucket] {
		s, _, shape := w.genSetup(r, k.a.SrcBucket, []string{k.a.SrcKey}, v.srcAct(), k.who, r.Intn(3) == 0)
		k.setups = append(k.setups, s)
		k.tShape += "+src-" + shape
		used[k.a.SrcBucket] = true
	}
	// decoy: another bucket on which the caller may do everything
	if r.Intn(2) == 0 && k.role != "root" {
		var free []string
		for _, b := range []string{w.st.Plain, w.st.Vers, w.st.Lock, w.st.Empty} {
			if !used[b] {
				free = append(free, b)
			}
		}
		if len(free) > 0 {
			b := free[r.Intn(len(free))]
			s := bucketSetup{Bucket: b, Owner: w.world0Owner(b), ACL: permissiveACL()}
			if r.Intn(2) == 0 {
				s.Policy = permissivePolicy(r, b, k.who.ak)
			}
			k.setups = append(k.setups, s)
			k.decoy = b
		}
	}
	for _, s := range k.setups {
		k.involve = append(k.involve, s.Bucket)
	}
	return k
}

// world0Owner keeps the owner a decoy bucket currently has.
func (w *worker) world0Owner(b string) string { return w.world[b].Owner }

func (k *kase) callerClass(hasBucket bool) string {
	switch {
	case !hasBucket:
		return k.role + "-nobucket"
	case k.owner:
		return k.role + "-owner"
	}
	return k.role + "-nonowner"
}

// ---------------------------------------------------------------------------
// reference decision

type verdict struct {
	allow    bool
	class    string          // class of the configuration that decided (policy | acl)
	perKey   map[string]bool // batch delete: decision per key
	perEntry []bool          // batch delete with version ids: decision per entry
	expl     string          // for deny: the alternative under which the reference would allow
	hasBkt   bool
}

func resourceOf(b, key string) string {
	if key == "" {
		return b
	}
	return b + "/" + key
}

// explain names every alternative reading under which the configuration would allow the request
// (what a deviating call site may have evaluated); "none" when there is no such reading.
// versionID is set for copy sources only: the reading "resource string with the ?versionId= suffix".
func (w *worker) explain(who, b, action, res, perm, versionID string, skip map[string]bool) string {
	cfg := w.world[b]
	var out []string
	if cfg.Policy != nil {
		for _, sib := range w.ai.siblings(action) {
			if cfg.Policy.allows(who, sib, res) {
				out = append(out, "action:"+sib)
			}
		}
		if res != b && cfg.Policy.allows(who, action, b) {
			out = append(out, "resource:bucket-only")
		}
		if versionID != "" {
			for _, a := range append([]string{action}, w.ai.siblings(action)...) {
				if cfg.Policy.allows(who, a, res+"?versionId="+versionID) && !cfg.Policy.allows(who, a, res) {
					out = append(out, "resource:versionId-suffix")
					break
				}
			}
		}
	} else {
		for _, p := range []string{"READ", "WRITE", "READ_ACP", "WRITE_ACP"} {
			if p != perm && cfg.aclAllows(who, p) {
				out = append(out, "permission:"+p)
			}
		}
	}
	if len(out) > 0 {
		sort.Strings(out)
		return strings.Join(out, "+")
	}
	// nothing in the bucket's own configuration: another bucket's configuration?
	for b2 := range w.world {
		if b2 != b && !skip[b2] && w.world[b2].allows(who, action, b2+strings.TrimPrefix(res, b), perm) {
			return "other-bucket-config"
		}
	}
	return "none"
}

func (w *worker) decide(k *kase) verdict {
	e, a := k.v.e, k.a
	who := k.who
	v := verdict{allow: true, class: k.tClass}
	v.hasBkt = (e.Level == catalog.LvlBucket || e.Level == catalog.LvlObject) && a.Bucket != w.st.NewBucket
	if who.role == "root" || who.role == "admin" {
		return v
	}
	switch {
	case e.Role == "admin":
		v.allow, v.expl = false, "none"
		return v
	case e.Role == "not-user":
		v.allow, v.expl = who.role != "user", "none"
		return v
	case !v.hasBkt:
		return v // ListBuckets: everybody may list (what is listed is judged separately)
	}
	if k.batch != nil {
		w.decideBatch(k, &v)
		return v
	}
	cfg := w.world[a.Bucket]
	v.class = cfg.class()
	if len(a.DelKeys) > 0 {
		v.perKey = map[string]bool{}
		all := true
		for _, key := range a.DelKeys {
			ok := cfg.allows(who.ak, e.Action, resourceOf(a.Bucket, key), e.ACL)
			v.perKey[key] = ok
			all = all && ok
		}
		v.allow = all
		if !all {
			v.expl = "none"
			for _, key := range a.DelKeys {
				if !v.perKey[key] {
					v.expl = w.explain(who.ak, a.Bucket, e.Action, resourceOf(a.Bucket, key), e.ACL, "", nil)
					break
				}
			}
		}
		return v
	}
	key := ""
	if e.Level == catalog.LvlObject {
		key = a.Key
	}
	res := resourceOf(a.Bucket, key)
	dst := cfg.allows(who.ak, e.Action, res, e.ACL)
	if !dst {
		v.allow = false
		v.expl = w.explain(who.ak, a.Bucket, e.Action, res, e.ACL, "", nil)
		return v
	}
	if a.SrcBucket != "" {
		scfg := w.world[a.SrcBucket]
		sres := resourceOf(a.SrcBucket, a.SrcKey)
		if !scfg.allows(who.ak, k.v.srcAct(), sres, "READ") {
			v.allow, v.class = false, scfg.class()
			x := w.explain(who.ak, a.SrcBucket, k.v.srcAct(), sres, "READ", a.SrcVersionID, map[string]bool{a.Bucket: true})
			v.expl = "src-" + x
		}
	}
	return v
}

// ---------------------------------------------------------------------------
// running a case

func reqText(b *s3c.Built) string {
	var sb strings.Builder
	sb.WriteString(b.Target)
	for _, kv := range b.Header {
		sb.WriteString("\n" + kv[1])
	}
	sb.WriteString("\n")
	sb.Write(b.Body)
	return sb.String()
}

func respText(r *s3c.Resp) string {
	var sb strings.Builder
	for k, vs := range r.Header {
		sb.WriteString(k + ": " + strings.Join(vs, ",") + "\n")
	}
	sb.Write(r.Body)
	return sb.String()
}

func (w *worker) disclosed(b *s3c.Built, r *s3c.Resp, extra []string) []string {
	rt, qt := respText(r), reqText(b)
	var out []string
	for _, cn := range append(append([]string{}, w.canaries...), extra...) {
		if strings.Contains(rt, cn) && !strings.Contains(qt, cn) {
			out = append(out, cn)
		}
	}
	return out
}

func describe(b *s3c.Built, r *s3c.Resp) map[string]any {
	h := map[string]string{}
	for _, kv := range b.Header {
		h[kv[0]] = kv[1]
	}
	body := b.Body
	if len(body) > 400 {
		body = body[:400]
	}
	m := map[string]any{"method": b.Method, "target": b.Target, "headers": h, "body_head": string(body)}
	if r.Err != nil {
		m["transport_error"] = r.Err.Error()
	} else {
		m["status"] = r.Status
		m["error_code"] = r.ErrCode()
		rb := r.Body
		if len(rb) > 300 {
			rb = rb[:300]
		}
		m["response_head"] = string(rb)
	}
	return m
}

func (w *worker) send(k *kase, acct account) (*s3c.Built, *s3c.Resp) {
	rq := k.v.e.Request(k.a, catalog.BodyValid).Req()
	if k.batch != nil {
		rq.Body = batchXML(k.batch)
	}
	rq.Watchdog = 60 * time.Second
	cl := w.root.With(acct.ak, acct.sk)
	b := cl.Build(rq)
	return b, cl.Send(b, rq)
}

func (w *worker) worldText(k *kase) map[string]any {
	m := map[string]any{}
	for _, b := range k.involve {
		cfg := w.world[b]
		d := map[string]any{"owner": cfg.Owner, "acl_grants": fmt.Sprint(cfg.Grants)}
		if cfg.Policy != nil {
			d["policy"] = cfg.Policy.Text
		}
		m[b] = d
	}
	return m
}

func short(d []string) []string {
	if len(d) > 8 {
		return append(append([]string{}, d[:8]...), fmt.Sprintf("... %d more", len(d)-8))
	}
	return d
}

func (w *worker) dead(what string) bool {
	if _, cr := w.env.Dead(); cr != nil {
		w.c.Observe("gateway died on " + what + ": " + cr.Message + " @ " + cr.TopFrame)
		w.c.Inconclusive("gateway died")
	} else {
		w.c.Inconclusive("transport error")
	}
	return w.restore()
}

func (w *worker) runCase(k *kase) {
	e := k.v.e
	liveKey := k.v.name + "|" + k.tClass
	// mutators: is the endpoint live for root on a state of this class? (once)
	if e.Kind == catalog.W {
		if _, ok := w.liveW[liveKey]; !ok {
			if why := w.setup(k); why != "" {
				w.skip(k, why)
				return
			}
			s1 := w.snapshot()
			_, resp := w.send(k, w.acc["root"])
			if resp.Err != nil {
				w.dead("root probe " + k.v.name)
				return
			}
			_, d := w.stableDiff(s1)
			w.liveW[liveKey] = resp.OK() && len(d) > 0
			if w.liveW[liveKey] {
				w.markLive(k.v.name)
			} else if e.Live {
				w.c.Observe(fmt.Sprintf("mutator not live for root [%s]: %s (%s, %d tree changes)", k.tClass, k.v.name, resp.String(), len(d)))
			}
			if !w.restore() {
				return
			}
		}
	}
	if why := w.setup(k); why != "" {
		w.skip(k, why)
		return
	}
	live := w.liveW[liveKey]
	if e.Kind == catalog.R {
		s0 := w.snapshot()
		_, rr := w.send(k, w.acc["root"])
		if rr.Err != nil {
			w.dead("root probe " + k.v.name)
			return
		}
		live = rr.OK()
		if live {
			w.markLive(k.v.name)
		}
		if _, d := w.stableDiff(s0); len(d) > 0 {
			w.c.Observe("reader changed the store when sent by root: " + k.v.name)
			w.restore()
			return
		}
	}
	v := w.decide(k)
	var pre *versionState
	if k.batch != nil {
		var err error
		if pre, err = w.versionState(k.a.Bucket); err != nil {
			w.c.Inconclusive("version listing before a batch delete failed")
			return
		}
	}
	s1 := w.snapshot()
	b, resp := w.send(k, k.who)
	w.c.Eval(1)
	w.c.Add("requests_judged", 1)
	if resp.Err != nil {
		w.dead(k.id)
		return
	}
	s2, d := w.stableDiff(s1)
	cc := k.callerClass(v.hasBkt)
	ref := "deny"
	if v.allow {
		ref = "allow"
	}
	if live {
		w.c.Distinct(k.v.name + "|" + cc + "|" + k.tShape + "|" + ref)
	} else {
		w.c.Add("trivial_not_live_for_root", 1)
	}
	det := func() map[string]any {
		m := describe(b, resp)
		m["endpoint"], m["caller"], m["caller_class"], m["reference"], m["live_for_root"] = k.v.name, k.who.ak, cc, ref, live
		m["world"] = w.worldText(k)
		m["action"], m["acl_permission"] = e.Action, e.ACL
		if k.a.SrcBucket != "" {
			m["source_action"] = k.v.srcAct()
		}
		if k.decoy != "" {
			m["decoy_bucket"] = k.decoy
		}
		if v.perKey != nil {
			m["reference_per_key"] = v.perKey
		}
		if v.perEntry != nil {
			pe := map[string]bool{}
			for i, be := range k.batch {
				pe[fmt.Sprintf("%d:%s", i, be)] = v.perEntry[i]
			}
			m["reference_per_entry"] = pe
		}
		if len(d) > 0 {
			m["tree_diff"] = short(d)
		}
		return m
	}
	sig := func(kind string) string {
		return fmt.Sprintf("%s:%s:%s:%s:expl=%s", k.v.name, v.class, cc, kind, v.expl)
	}
	switch {
	case v.perEntry != nil && !v.allow:
		// batch delete with version ids and at least one denied entry: every denied entry must survive
		w.c.Add("denied_cases", 1)
		bad := w.judgeBatch(k, &v, resp, pre, cc, det)
		anyAllowed := false
		for _, ok := range v.perEntry {
			anyAllowed = anyAllowed || ok
		}
		if bad == 0 && !anyAllowed && len(d) > 0 {
			w.c.Violation(fmt.Sprintf("%s:%s:%s:tree-changed:expl=none", k.v.name, v.class, cc), k.id, det())
		}
		if bad == 0 && !resp.OK() && len(w.disclosed(b, resp, nil)) > 0 {
			w.c.Violation(fmt.Sprintf("%s:%s:%s:data-disclosed:expl=none", k.v.name, v.class, cc), k.id, det())
		}
	case v.perKey != nil && !v.allow:
		// batch delete with at least one denied key: the denied keys must survive
		bad := false
		for _, key := range k.a.DelKeys {
			if v.perKey[key] {
				continue
			}
			p := "root/" + k.a.Bucket + "/" + strings.TrimSuffix(key, "/")
			_, was := s1[p]
			_, is := s2[p]
			if was && !is {
				bad = true
				m := det()
				m["denied_key_deleted"] = key
				w.c.Violation(sig("batch-key-deleted"), k.id, m)
			}
		}
		anyAllowed := false
		for _, ok := range v.perKey {
			anyAllowed = anyAllowed || ok
		}
		if !bad && !anyAllowed && len(d) > 0 {
			w.c.Violation(sig("tree-changed"), k.id, det())
		}
		if !bad && len(w.disclosed(b, resp, nil)) > 0 && !resp.OK() {
			w.c.Violation(sig("data-disclosed"), k.id, det())
		}
		w.c.Add("denied_cases", 1)
	case !v.allow:
		w.c.Add("denied_cases", 1)
		switch leak := w.disclosed(b, resp, nil); {
		case resp.OK():
			m := det()
			if len(leak) > 0 {
				m["disclosed"] = leak
			}
			w.c.Violation(sig("allowed-but-reference-denies"), k.id, m)
		case len(d) > 0:
			w.c.Violation(sig("tree-changed"), k.id, det())
		case len(leak) > 0:
			m := det()
			m["disclosed"] = leak
			w.c.Violation(sig("data-disclosed"), k.id, m)
		default:
			if resp.Status != 403 {
				w.c.Add("denied_with_other_error", 1)
			}
		}
	default:
		w.c.Add("allowed_cases", 1)
		if !resp.OK() && live && (resp.Status == 403 || resp.Status == 401) {
			w.c.Observe(fmt.Sprintf("over-denial: %s [%s] -> %d %s", k.v.name, v.class, resp.Status, resp.ErrCode()))
			w.c.Add("over_denials", 1)
		}
		// ListBuckets: only the caller's own buckets may be listed to a non-admin account
		if e.Op == "ListBuckets" && resp.OK() && k.who.role != "root" && k.who.role != "admin" {
			var foreign []string
			for bn, cfg := range w.world {
				if cfg.Owner != k.who.ak {
					foreign = append(foreign, bn)
				}
			}
			sort.Strings(foreign)
			for _, bn := range foreign {
				if strings.Contains(string(resp.Body), "<Name>"+bn+"</Name>") {
					m := det()
					m["foreign_bucket_listed"] = bn
					w.c.Violation(fmt.Sprintf("%s:%s:%s:data-disclosed:expl=foreign-bucket-listed", k.v.name, v.class, cc), k.id, m)
					break
				}
			}
		}
	}
	if live {
		w.c.Sample(map[string]any{"case": k.id, "reference": ref, "request": describe(b, resp), "world": w.worldText(k), "caller_class": cc})
	}
	if len(d) > 0 {
		w.restore()
	}
}

// markLive counts an endpoint (variant) as live once.
func (w *worker) markLive(name string) {
	if _, seen := liveSeen.LoadOrStore(name, true); !seen {
		w.c.Add("endpoints_live", 1)
	}
}

var liveSeen sync.Map

func (w *worker) skip(k *kase, why string) {
	// a refused policy document teaches the generator which exact action names are not accepted
	if strings.HasPrefix(why, "policy refused") {
		w.refused = true
		w.c.Add("generated_policy_refused", 1)
		if os.Getenv("C03_DEBUG") != "" {
			for _, s := range k.setups {
				if s.Policy != nil {
					fmt.Fprintf(os.Stderr, "C03_DEBUG %s: %s: %s\n", k.id, why, s.Policy.Text)
				}
			}
		}
		for _, s := range k.setups {
			if s.Policy == nil {
				continue
			}
			for _, st := range s.Policy.Stmts {
				for _, a := range st.Actions {
					if !strings.HasSuffix(a, "*") {
						r := w.root.Sub("PUT", w.st.Empty, "", "policy", []byte(fmt.Sprintf(
							`{"Statement":[{"Effect":"Allow","Principal":"*","Action":%q,"Resource":["arn:aws:s3:::%s","arn:aws:s3:::%s/*"]}]}`, a, w.st.Empty, w.st.Empty)))
						if !r.OK() && !w.avoid[a] {
							w.avoid[a] = true
							w.c.Observe("action name not accepted in a policy document: " + a)
						}
					}
				}
			}
		}
		w.restore()
		return
	}
	if strings.HasPrefix(why, "world model mismatch") {
		w.c.Inconclusive("world model mismatch")
		if os.Getenv("C03_DEBUG") != "" {
			fmt.Fprintf(os.Stderr, "C03_DEBUG %s: %s\n", k.id, why)
		}
	} else {
		w.c.Observe("case set-up refused: " + clipWhy(why))
		if os.Getenv("C03_DEBUG") != "" {
			fmt.Fprintf(os.Stderr, "C03_DEBUG %s: %s\n", k.id, why)
		}
	}
	w.c.Add("cases_skipped_setup", 1)
	w.restore()
}

func clipWhy(s string) string {
	if i := strings.Index(s, "<?xml"); i > 0 {
		s = s[:i]
	}
	if len(s) > 120 {
		s = s[:120]
	}
	return s
}

func (w *worker) run() {
	defer w.close()
	if err := w.start(); err != nil {
		w.c.Inconclusive("worker start: " + err.Error())
		return
	}
	for _, v := range w.vs {
		rng := w.c.Rng("c03/" + v.name)
		for i := 0; i < w.n; i++ {
			id := fmt.Sprintf("m/%s/%d", v.name, i)
			seed := rng.Int63()
			if w.broken {
				return
			}
			if !w.c.Want(id) {
				continue
			}
			// up to three draws when the gateway refuses the generated policy document
			for try := 0; try < 3; try++ {
				crng := rand.New(rand.NewSource(seed + int64(try)))
				k := w.genCase(crng, v, id)
				if k == nil {
					return
				}
				w.refused = false
				w.runCase(k)
				if !w.refused || w.broken {
					break
				}
			}
		}
	}
	for _, v := range w.vs {
		for _, kind := range sweepKinds {
			if w.broken {
				return
			}
			if k := w.sweepCase(v, kind, len(v.name)); k != nil && w.c.Want(k.id) {
				w.runCase(k)
			}
		}
	}
	for _, sc := range w.scs {
		if w.broken {
			return
		}
		w.runCase(w.scenarioCase(sc, w.all))
	}
	if _, cr := w.env.Dead(); cr != nil {
		w.c.Observe("gateway died: " + cr.Message + " @ " + cr.TopFrame)
		w.c.Inconclusive("gateway died")
	}
}

func Run(c *ev.Ctx) int {
	c.Assume("HTTP/1.1 over loopback; posix backend with versioning dir, xattr metadata; internal IAM; every request correctly signed")
	c.Assume("ACL branch: reads need READ, writes WRITE, ACL reads/writes READ_ACP/WRITE_ACP, FULL_CONTROL implies all, all-users grants apply to everybody, the owner has full control (DESIGN 2.8)")
	c.Assume("policy branch: allow iff an Allow statement matches (caller, catalogue action, exact resource) and no Deny statement matches; the owner is subject to the policy like any non-admin account")
	c.Assume("generated policies are valid and unambiguous (trailing-* action patterns, resources inside the bucket, each statement has a resource of the kind its actions need); refused documents are regenerated")
	c.Assume("ListBuckets is allowed to everybody but may only list the caller's own buckets to a non-admin account; CreateBucket needs a role other than user; the admin API needs the admin role")
	ai := &actionInfo{object: map[string]bool{}}
	for _, e := range catalog.All() {
		obj := e.Level == catalog.LvlObject || e.Op == "DeleteObjects"
		ai.add(e.Action, obj)
		ai.add(e.SrcAction, true)
	}
	ai.add("s3:GetObjectVersion", true)
	ai.add("s3:DeleteObjectVersion", true)
	vs := variants()
	scs := scenarios()
	all := map[string]*variant{}
	for j := range vs {
		all[vs[j].name] = &vs[j]
	}
	c.Set("endpoints_total", len(vs))
	c.Set("directed_scenarios", len(scs))
	n := c.Pick(8, 70)
	var wg sync.WaitGroup
	for i := 0; i < nWorkers; i++ {
		w := &worker{c: c, idx: i, ai: ai, n: n, liveW: map[string]bool{}, avoid: map[string]bool{}, all: all}
		for j := range vs {
			if j%nWorkers == i && (c.Want("m/"+vs[j].name) || c.Want("w/"+vs[j].name)) {
				w.vs = append(w.vs, &vs[j])
			}
		}
		for j := range scs {
			if j%nWorkers == i && c.Want("s/"+scs[j].name) {
				w.scs = append(w.scs, &scs[j])
			}
		}
		if len(w.vs) == 0 && len(w.scs) == 0 {
			continue
		}
		wg.Add(1)
		go func() {
			defer wg.Done()
			w.run()
		}()
	}
	for _, sc := range []bool{false, true} {
		wg.Add(1)
		go func(sc bool) {
			defer wg.Done()
			aliasedNameLane(c, sc)
		}(sc)
	}
	for _, sc := range []bool{false, true} {
		for _, how := range []string{"preexisting", "interrupted-create"} {
			wg.Add(1)
			go func(sc bool, how string) {
				defer wg.Done()
				unclaimedDirLane(c, sc, how)
			}(sc, how)
		}
	}
	for _, sc := range []bool{false, true} {
		wg.Add(1)
		go func(sc bool) {
			defer wg.Done()
			refusedPolicyPutLane(c, sc)
		}(sc)
	}
	for _, sc := range []bool{false, true} {
		wg.Add(1)
		go func(sc bool) {
			defer wg.Done()
			copySourceSplitLane(c, sc)
			bypassBatchLane(c, sc)
		}(sc)
	}
	wg.Add(1)
	go func(seed int64) {
		defer wg.Done()
		innerWildcardLane(c, seed)
	}(c.Rng("inner-wildcard").Int63())
	for _, cc := range []string{"cache-default", "cache-disabled"} {
		wg.Add(1)
		go func(cc string) {
			defer wg.Done()
			refusedAdminLane(c, cc)
		}(cc)
	}
	for _, sc := range []bool{false, true} {
		for _, k := range []string{"policy", "acl-grants", "acl-public"} {
			wg.Add(1)
			go func(sc bool, k string) {
				defer wg.Done()
				rebornLane(c, sc, k)
			}(sc, k)
		}
	}
	wg.Wait()
	return c.Finish("endpoint catalogue (+ cross-bucket / versioned copy sources, 3-key batch delete) x caller {root, admin, userplus, user} x {owner, non-owner} x generated "+
		"configuration of target and source bucket (ACL from canned / grant kinds, or policy of 1-4 statements) with a decoy bucket open to the caller; reference = root/admin allow, "+
		"policy if set, else ACL table; deny => non-2xx, store snapshot unchanged, no canary, denied batch keys survive; a case is distinct by (endpoint, caller class, configuration shape, "+
		"reference verdict) and counts only if the operation succeeds for root on that state", c.Pick(400, 2500))
}
