package c03

import (
	"encoding/json"
	"fmt"
	"math/rand"
	"sort"
	"strings"
)

// ---------------------------------------------------------------------------
// Reference model of the access rule, written from the property statement:
//
//	root / admin accounts                       -> allow
//	a bucket policy is set on the bucket        -> allow iff some Allow statement matches (caller, action, resource)
//	                                               and no Deny statement matches
//	otherwise                                   -> the bucket ACL grants the needed permission
//	                                               (owner: full control; FULL_CONTROL implies all; all-users = everybody)
//
// Resources are `bucket` or `bucket/key`; patterns: '*' any run, '?' exactly one character.
// ---------------------------------------------------------------------------

type stmt struct {
	Effect     string   // Allow | Deny
	Principals []string // account access keys or "*"
	Actions    []string // exact, "s3:*" or a prefix followed by '*'
	Resources  []string // without the arn:aws:s3::: prefix
}

type policy struct {
	Stmts []stmt
	Text  string // the JSON document that was stored
}

type grant struct{ Who, Perm string } // Who = access key or "all-users"

// bcfg is the access configuration of one bucket as the harness set it.
type bcfg struct {
	Owner  string
	Policy *policy
	Grants []grant // besides the owner's FULL_CONTROL
}

// glob: '*' matches any run of characters, '?' exactly one.
func glob(p, s string) bool {
	pr, sr := []rune(p), []rune(s)
	// dynamic programming over (i, j)
	prev := make([]bool, len(sr)+1)
	prev[0] = true
	for i := 1; i <= len(pr); i++ {
		cur := make([]bool, len(sr)+1)
		if pr[i-1] == '*' {
			cur[0] = prev[0]
		}
		for j := 1; j <= len(sr); j++ {
			switch pr[i-1] {
			case '*':
				cur[j] = prev[j] || cur[j-1]
			case '?':
				cur[j] = prev[j-1]
			default:
				cur[j] = prev[j-1] && pr[i-1] == sr[j-1]
			}
		}
		prev = cur
	}
	return prev[len(sr)]
}

func (s *stmt) matches(who, action, resource string) bool {
	ok := false
	for _, p := range s.Principals {
		if p == "*" || p == who {
			ok = true
		}
	}
	if !ok {
		return false
	}
	ok = false
	for _, a := range s.Actions {
		if glob(a, action) {
			ok = true
		}
	}
	if !ok {
		return false
	}
	for _, r := range s.Resources {
		if glob(r, resource) {
			return true
		}
	}
	return false
}

func (p *policy) allows(who, action, resource string) bool {
	allow := false
	for i := range p.Stmts {
		if p.Stmts[i].matches(who, action, resource) {
			if p.Stmts[i].Effect == "Deny" {
				return false
			}
			allow = true
		}
	}
	return allow
}

func (p *policy) hasDeny() bool {
	for _, s := range p.Stmts {
		if s.Effect == "Deny" {
			return true
		}
	}
	return false
}

func (b *bcfg) aclAllows(who, perm string) bool {
	if who == b.Owner {
		return true
	}
	for _, g := range b.Grants {
		if (g.Who == who || g.Who == "all-users") && (g.Perm == perm || g.Perm == "FULL_CONTROL") {
			return true
		}
	}
	return false
}

// allows is the decision for a non-admin account.
func (b *bcfg) allows(who, action, resource, perm string) bool {
	if b.Policy != nil {
		return b.Policy.allows(who, action, resource)
	}
	return b.aclAllows(who, perm)
}

func (b *bcfg) class() string {
	if b.Policy != nil {
		return "policy"
	}
	return "acl"
}

// ---------------------------------------------------------------------------
// JSON rendering of a policy, with the syntactic alternatives the language offers.

func jsonList(r *rand.Rand, xs []string, prefix string) string {
	ys := make([]string, len(xs))
	for i, x := range xs {
		ys[i] = prefix + x
	}
	if len(ys) == 1 && r.Intn(2) == 0 {
		b, _ := json.Marshal(ys[0])
		return string(b)
	}
	b, _ := json.Marshal(ys)
	return string(b)
}

func (p *policy) render(r *rand.Rand) {
	var parts []string
	for i, s := range p.Stmts {
		pr := jsonList(r, s.Principals, "")
		if r.Intn(3) > 0 {
			pr = `{"AWS":` + pr + `}`
		}
		parts = append(parts, fmt.Sprintf(`{"Sid":"c03s%d","Effect":%q,"Principal":%s,"Action":%s,"Resource":%s}`,
			i, s.Effect, pr, jsonList(r, s.Actions, ""), jsonList(r, s.Resources, "arn:aws:s3:::")))
	}
	p.Text = `{"Version":"2012-10-17","Statement":[` + strings.Join(parts, ",") + `]}`
}

// ---------------------------------------------------------------------------
// Action universe (AWS names) and their resource kind.

type actionInfo struct {
	object map[string]bool // action -> applies to objects
	names  []string
}

func (ai *actionInfo) add(name string, obj bool) {
	if name == "" {
		return
	}
	if _, ok := ai.object[name]; !ok {
		ai.names = append(ai.names, name)
		sort.Strings(ai.names)
	}
	if obj {
		ai.object[name] = true
	} else if !ai.object[name] {
		ai.object[name] = false
	}
}

// patternKinds: does the pattern cover object actions / bucket actions?
func (ai *actionInfo) patternKinds(p string) (obj, bkt bool) {
	for _, n := range ai.names {
		if glob(p, n) {
			if ai.object[n] {
				obj = true
			} else {
				bkt = true
			}
		}
	}
	return
}

// siblings lists the actions a call site could plausibly pass by mistake for `action`:
// the variant without "Version" and the homonym of the other resource kind.
func (ai *actionInfo) siblings(action string) []string {
	var out []string
	if strings.HasSuffix(action, "Version") {
		out = append(out, strings.TrimSuffix(action, "Version"))
	} else {
		out = append(out, action+"Version")
	}
	if strings.Contains(action, "Object") {
		out = append(out, strings.Replace(action, "Object", "Bucket", 1))
	} else if strings.Contains(action, "Bucket") {
		out = append(out, strings.Replace(action, "Bucket", "Object", 1))
	}
	var res []string
	for _, o := range out {
		if _, ok := ai.object[o]; ok && o != action {
			res = append(res, o)
		}
	}
	return res
}

// prefixes returns the wildcard forms "s3:Get*", "s3:GetObject*" ... of an action.
func prefixes(action string) []string {
	name := strings.TrimPrefix(action, "s3:")
	var out []string
	for i := 1; i < len(name); i++ {
		if name[i] >= 'A' && name[i] <= 'Z' {
			out = append(out, "s3:"+name[:i]+"*")
		}
	}
	return out
}

// wildcardFor returns the longest prefix pattern of action that also matches a name outside avoid.
func (ai *actionInfo) wildcardFor(action string, avoid map[string]bool) string {
	pf := prefixes(action)
	for i := len(pf) - 1; i >= 0; i-- {
		for _, n := range ai.names {
			if !avoid[n] && glob(pf[i], n) {
				return pf[i]
			}
		}
	}
	return "s3:*"
}

// usablePrefixes: the wildcard forms of action that cover at least one name outside avoid.
func (ai *actionInfo) usablePrefixes(action string, avoid map[string]bool) []string {
	var out []string
	for _, p := range prefixes(action) {
		for _, n := range ai.names {
			if !avoid[n] && glob(p, n) {
				out = append(out, p)
				break
			}
		}
	}
	return out
}

// neighbours: the other actions that start with the same verb (Get, Put, Delete, List ...).
func (ai *actionInfo) neighbours(action string) []string {
	pf := prefixes(action)
	if len(pf) == 0 {
		return nil
	}
	var out []string
	for _, n := range ai.names {
		if n != action && glob(pf[0], n) {
			out = append(out, n)
		}
	}
	return out
}
