// Package c14: Bucket policy evaluation follows the policy language exactly.
//
// Lane A (direct calls into /repo's auth package):
//   - glob: auth.Resources.Match / FindMatch vs a reference matcher, exhaustive
//     over all (pattern, subject) up to a length bound over {a,b,*,?} plus PRNG
//     strings over {a,b,/,*,?,.,é,𝄞};
//   - components: auth.Actions.FindMatch / auth.Principals.Contains vs the
//     stated rules, exhaustive over the action vocabulary;
//   - validity: auth.ValidatePolicyDocument on generated valid / invalid /
//     ambiguous documents (ambiguous ones are counted, not judged);
//   - evaluator: auth.VerifyBucketPolicy vs a deny-overrides reference fold on
//     generated documents in every JSON shape.
//
// Lane B (real gateway): PutBucketPolicy of every invalid class over an
// existing policy (refused, old policy bytes and old decisions stay), and real
// requests of two IAM users (one of them the bucket owner) under generated
// valid policies compared with the reference decision.
package c14

import (
	"bytes"
	"fmt"
	"math/rand"
	"sort"
	"strings"
	"sync"

	"github.com/versity/versitygw/auth"

	"verif/harness/internal/ev"
	"verif/harness/internal/fx"
	"verif/harness/internal/gw"
	"verif/harness/internal/reg"
	"verif/harness/internal/s3c"
)

func init() { reg.Register("C14", "exploration", Run) }

// ---------------------------------------------------------------- glob lanes

func enumStrings(alpha string, maxLen int) []string {
	out := []string{""}
	level := []string{""}
	for l := 1; l <= maxLen; l++ {
		var next []string
		for _, s := range level {
			for i := 0; i < len(alpha); i++ {
				next = append(next, s+alpha[i:i+1])
			}
		}
		out = append(out, next...)
		level = next
	}
	return out
}

func patternClass(p string) string {
	stars, q, lit, dbl := 0, false, false, strings.Contains(p, "**")
	for _, c := range p {
		switch c {
		case '*':
			stars++
		case '?':
			q = true
		default:
			lit = true
		}
	}
	if stars > 2 {
		stars = 2
	}
	return fmt.Sprintf("stars%d,q=%t,lit=%t,dbl=%t,mb=%t", stars, q, lit, dbl, hasMultibyte(p))
}

func subjectClass(s string) string {
	if s == "" {
		return "empty"
	}
	return fmt.Sprintf("star=%t,q=%t,mb=%t", strings.Contains(s, "*"), strings.Contains(s, "?"), hasMultibyte(s))
}

func globCase(c *ev.Ctx, id, p, s string, classes map[string]bool) {
	got, want := implGlob(p, s), refGlob(p, s)
	if classes != nil {
		classes[fmt.Sprintf("glob|%s|%s|%t", patternClass(p), subjectClass(s), want)] = true
	}
	if got != want {
		c.Violation(classifyGlob(p, s), id, map[string]any{"lane": "glob", "pattern": p, "subject": s, "Resources.Match": got, "reference": want})
	}
}

func laneGlobExhaustive(c *ev.Ctx) {
	maxLen := c.Pick(4, 5)
	strs := enumStrings("ab*?", maxLen)
	runes := make([][]rune, len(strs))
	for i, s := range strs {
		runes[i] = []rune(s)
	}
	workers := 8
	var wg sync.WaitGroup
	for w := 0; w < workers; w++ {
		wg.Add(1)
		go func(w int) {
			defer wg.Done()
			classes := map[string]bool{}
			n := 0
			for pi := w; pi < len(strs); pi += workers {
				pid := fmt.Sprintf("glob/ex/%d", pi)
				if !c.Want(pid) {
					continue
				}
				p := strs[pi]
				pc := patternClass(p)
				for si, s := range strs {
					if c.Only != "" && !c.Want(fmt.Sprintf("%s/%d", pid, si)) {
						continue
					}
					got, want := implGlob(p, s), refGlobR(runes[pi], runes[si])
					n++
					if got != want {
						c.Violation(classifyGlob(p, s), fmt.Sprintf("%s/%d", pid, si),
							map[string]any{"lane": "glob-exhaustive", "pattern": p, "subject": s, "Resources.Match": got, "reference": want})
					}
					if si%7 == 0 || got != want {
						classes[fmt.Sprintf("glob|%s|%s|%t", pc, subjectClass(s), want)] = true
					}
				}
			}
			c.Eval(n)
			c.Add("glob_exhaustive_pairs", n)
			for k := range classes {
				c.Distinct(k)
			}
		}(w)
	}
	wg.Wait()
	c.Set("glob_exhaustive_max_len", maxLen)
}

func laneGlobRandom(c *ev.Ctx) {
	total := c.Pick(200000, 3000000)
	shards := 8
	var wg sync.WaitGroup
	for sh := 0; sh < shards; sh++ {
		shid := fmt.Sprintf("glob/rnd/%d", sh)
		if !c.Want(shid) {
			continue
		}
		wg.Add(1)
		go func(sh int) {
			defer wg.Done()
			r := c.Rng(shid)
			classes := map[string]bool{}
			n := 0
			for i := 0; i < total/shards; i++ {
				seed := r.Int63()
				id := fmt.Sprintf("%s/%d", shid, i)
				if c.Only != "" && !c.Want(id) {
					continue
				}
				cr := rand.New(rand.NewSource(seed))
				p := randString(cr, globAlpha, 0, 7)
				var s string
				switch x := cr.Intn(10); {
				case x < 4:
					s = instantiate(cr, p, globAlpha)
				case x < 7:
					s = mutate(cr, instantiate(cr, p, globAlpha), globAlpha)
				default:
					s = randString(cr, globAlpha, 0, 8)
				}
				n++
				if i%5 == 4 {
					// the set form used by statements: any pattern of the set matches
					set := auth.Resources{p: {}}
					pats := []string{p}
					for k := cr.Intn(3); k > 0; k-- {
						q := randString(cr, globAlpha, 0, 5)
						set[q] = struct{}{}
						pats = append(pats, q)
					}
					want := false
					for _, q := range pats {
						want = want || refGlob(q, s)
					}
					if got := set.FindMatch(s); got != want {
						sig := "glob:find-match-set-level"
						for _, q := range pats {
							if globFails(q, s) {
								sig = classifyGlob(q, s)
								break
							}
						}
						c.Violation(sig, id, map[string]any{"lane": "glob-random-set", "patterns": pats, "subject": s, "Resources.FindMatch": got, "reference": want})
					}
					continue
				}
				globCase(c, id, p, s, classes)
				if sh == 0 && i < 2 {
					c.Sample(map[string]any{"lane": "glob-random", "pattern": p, "subject": s, "reference": refGlob(p, s)})
				}
			}
			c.Eval(n)
			c.Add("glob_random_pairs", n)
			for k := range classes {
				c.Distinct(k)
			}
		}(sh)
	}
	wg.Wait()
}

// ---------------------------------------------------------------- component lane

func laneComponents(c *ev.Ctx) {
	if !c.Want("comp") {
		return
	}
	vocab := append(append([]string{}, allActions...), arguableAction)
	patSet := map[string]bool{"s3:*": true}
	for _, a := range vocab {
		patSet[a] = true
		for cut := 3; cut <= len(a); cut++ {
			patSet[a[:cut]+"*"] = true
		}
	}
	var pats []string
	for p := range patSet {
		pats = append(pats, p)
	}
	sort.Strings(pats)
	subjects := append(append([]string{}, vocab...), "s3:GetObjectX", "s3:getobject", "s3:", "s3:Get", "GetObject", "xs3:GetObject")
	n := 0
	for pi, p := range pats {
		for ai, a := range subjects {
			id := fmt.Sprintf("comp/action/%d/%d", pi, ai)
			if c.Only != "" && !c.Want(id) {
				continue
			}
			got, want := implActions([]string{p}, a), refActionMatch(p, a)
			n++
			if got != want {
				c.Violation(classifyAction(p, a), id, map[string]any{"lane": "components", "action_pattern": p, "action": a, "Actions.FindMatch": got, "reference": want})
			}
			if ai == 0 {
				c.Distinct(fmt.Sprintf("comp|action|%s", actionPatternKind(p)))
			}
		}
	}
	// sets of two patterns
	r := c.Rng("comp")
	for i := 0; i < 20000; i++ {
		ps := []string{pick(r, pats), pick(r, pats)}
		a := pick(r, subjects)
		id := fmt.Sprintf("comp/actionset/%d", i)
		if c.Only != "" && !c.Want(id) {
			continue
		}
		got, want := implActions(ps, a), refActionsMatch(ps, a)
		n++
		if got != want {
			sig := "action-match:set-level"
			for _, p := range ps {
				if implActions([]string{p}, a) != refActionMatch(p, a) {
					sig = classifyAction(p, a)
				}
			}
			c.Violation(sig, id, map[string]any{"lane": "components", "action_patterns": ps, "action": a, "Actions.FindMatch": got, "reference": want})
		}
	}
	names := []string{"user1", "user2", "user", "user10", "USER1", "*", "", "us*", "user?", "user1 "}
	for i, a := range names {
		for j, b := range names {
			for k, caller := range names {
				id := fmt.Sprintf("comp/principal/%d/%d/%d", i, j, k)
				if c.Only != "" && !c.Want(id) {
					continue
				}
				ps := []string{a, b}
				if i == j {
					ps = ps[:1]
				}
				got, want := implPrincipals(ps, caller), refPrincipalMatch(ps, caller)
				n++
				if got != want {
					c.Violation(classifyPrincipal(ps, caller), id, map[string]any{"lane": "components", "principals": ps, "caller": caller, "Principals.Contains": got, "reference": want})
				}
			}
		}
	}
	c.Distinct("comp|principal")
	c.Eval(n)
	c.Add("component_pairs", n)
}

// ---------------------------------------------------------------- validity lane (direct)

type fakeIAM struct{ known map[string]bool }

func (f fakeIAM) CreateAccount(auth.Account) error { return nil }
func (f fakeIAM) GetUserAccount(a string) (auth.Account, error) {
	if f.known[a] {
		return auth.Account{Access: a, Role: auth.RoleUser}, nil
	}
	return auth.Account{}, auth.ErrNoSuchUser
}
func (f fakeIAM) UpdateUserAccount(string, auth.MutableProps) error { return nil }
func (f fakeIAM) DeleteUserAccount(string) error                    { return nil }
func (f fakeIAM) ListUserAccounts() ([]auth.Account, error)         { return nil, nil }
func (f fakeIAM) Shutdown() error                                   { return nil }

var laneAUsers = []string{"user1", "user2", "user3"}
var laneABuckets = []string{"bucket", "bkt", "my.bucket-1"}

func knownLaneA(u string) bool { return containsStr(laneAUsers, u) }

func validateSig(class, sub string) string {
	if sub == "" {
		return "validate:" + class
	}
	return "validate:" + class + ":" + sub
}

// repetitions for classes whose answer may depend on map iteration order
func repsFor(class string, n int) int {
	if strings.HasPrefix(class, "kind-mismatch-beside") || class == "kind-one-of-several-actions" {
		return n
	}
	return 1
}

func randomKeys(r *rand.Rand) []string {
	keys := make([]string, 5)
	for i := range keys {
		keys[i] = randString(r, globAlpha, 1, 6)
	}
	return keys
}

// nextCase derives the i-th validity case of a stream.
func nextCase(e *genEnv, r *rand.Rand, i int) genCase {
	inv := allInvalidClasses()
	switch m := i % 10; {
	case m < 2:
		d := e.validDoc(r, false)
		return genCase{Doc: d, JSON: render(d, r), Verdict: vValid, Class: "valid"}
	case m < 8:
		return e.invalidDoc(r, inv[(i/10*6+m-2)%len(inv)])
	default:
		return e.ambiguousDoc(r, ambiguousClasses[(i/10*2+m-8)%len(ambiguousClasses)])
	}
}

func laneValidity(c *ev.Ctx) {
	iam := fakeIAM{map[string]bool{}}
	for _, u := range laneAUsers {
		iam.known[u] = true
	}
	total := c.Pick(30000, 600000)
	shards := 8
	var wg sync.WaitGroup
	for sh := 0; sh < shards; sh++ {
		shid := fmt.Sprintf("valid/%d", sh)
		if !c.Want(shid) {
			continue
		}
		wg.Add(1)
		go func(sh int) {
			defer wg.Done()
			r := c.Rng(shid)
			n := 0
			for i := 0; i < total/shards; i++ {
				seed := r.Int63()
				id := fmt.Sprintf("%s/%d", shid, i)
				if c.Only != "" && !c.Want(id) {
					continue
				}
				cr := rand.New(rand.NewSource(seed))
				e := &genEnv{Bucket: pick(cr, laneABuckets), Users: laneAUsers, Alpha: globAlpha, Keys: randomKeys(cr)}
				gc := nextCase(e, cr, i)
				// generator and reference must agree on what was built
				if v, cl := refValidity(gc.Doc, e.Bucket, knownLaneA); v != gc.Verdict {
					c.Inconclusive(fmt.Sprintf("harness: generator built %s/%s but the reference says %s/%s", gc.Verdict, gc.Class, v, cl))
					continue
				}
				n++
				accepted, errText := false, ""
				for k := repsFor(gc.Class, 64); k > 0 && !accepted; k-- {
					err := auth.ValidatePolicyDocument(gc.JSON, e.Bucket, iam)
					accepted = err == nil
					if err != nil {
						errText = err.Error()
						if i := strings.Index(errText, "<Description>"); i >= 0 {
							errText = errText[i+13:]
							if j := strings.Index(errText, "</Description>"); j >= 0 {
								errText = errText[:j]
							}
						}
					}
				}
				c.Distinct(fmt.Sprintf("validity|%s|%s|%s", gc.Verdict, gc.Class, gc.Sub))
				switch gc.Verdict {
				case vInvalid:
					if accepted {
						c.Violation(validateSig(gc.Class, gc.Sub), id, map[string]any{"lane": "validity-direct", "bucket": e.Bucket, "policy": string(gc.JSON),
							"class": gc.Class, "variant": gc.Sub, "ValidatePolicyDocument": "accepted", "reference": "not a valid policy for this bucket: " + gc.Class})
					}
				case vValid:
					if !accepted {
						if strings.HasPrefix(errText, "Invalid effect") {
							errText = "Invalid effect"
						}
						c.Observe("over-strict: reference-valid document refused by ValidatePolicyDocument: " + errText)
					}
				default:
					c.Observe(fmt.Sprintf("ambiguous validity, not judged: %s: %s", gc.Class, map[bool]string{true: "accepted", false: "refused"}[accepted]))
					c.Add("ambiguous_not_judged", 1)
				}
				if sh == 0 && (i == 2 || i == 8) {
					c.Sample(map[string]any{"lane": "validity", "bucket": e.Bucket, "policy": string(gc.JSON), "reference": gc.Verdict.String() + "/" + gc.Class, "accepted": accepted})
				}
			}
			c.Eval(n)
			c.Add("validity_documents", n)
		}(sh)
	}
	wg.Wait()
}

// ---------------------------------------------------------------- evaluator lane (direct)

func evalDetail(lane string, bucket string, policy []byte, q query, got bool, want decision) map[string]any {
	return map[string]any{"lane": lane, "bucket": bucket, "policy": string(policy), "caller": q.Caller, "action": q.Action, "object": q.Object,
		"observed_allowed": got, "reference_allowed": want.Allowed, "reference_allow_statements": want.AllowMatched, "reference_deny_statements": want.DenyMatched}
}

func laneEvaluator(c *ev.Ctx) {
	total := c.Pick(200000, 5000000)
	const perDoc = 20
	shards := 16
	callers := []string{"user1", "user2", "user3", "ghost"}
	var wg sync.WaitGroup
	for sh := 0; sh < shards; sh++ {
		shid := fmt.Sprintf("eval/%d", sh)
		if !c.Want(shid) {
			continue
		}
		wg.Add(1)
		go func(sh int) {
			defer wg.Done()
			r := c.Rng(shid)
			n := 0
			classes := map[string]bool{}
			for i := 0; i < total/shards/perDoc; i++ {
				seed := r.Int63()
				did := fmt.Sprintf("%s/%d", shid, i)
				if c.Only != "" && !c.Want(did) {
					continue
				}
				cr := rand.New(rand.NewSource(seed))
				e := &genEnv{Bucket: pick(cr, laneABuckets), Users: laneAUsers, Alpha: globAlpha, Keys: randomKeys(cr)}
				d := e.validDoc(cr, true)
				js := render(d, cr)
				for k := 0; k < perDoc; k++ {
					q := e.freeQuery(cr, d, callers)
					id := fmt.Sprintf("%s/%d", did, k)
					if c.Only != "" && !c.Want(id) {
						continue
					}
					got, perr := implDecide(js, q)
					if perr != nil {
						c.Observe("over-strict: evaluator cannot read a document the reference accepts (or leaves open): " + firstLine(perr.Error()))
						break
					}
					n++
					want := decide(d, q, refMatchers)
					shp := "none"
					if len(want.DenyMatched) > 0 {
						shp = stmtShape(&d.Stmts[want.DenyMatched[0]])
					} else if len(want.AllowMatched) > 0 {
						shp = stmtShape(&d.Stmts[want.AllowMatched[0]])
					}
					classes[fmt.Sprintf("eval|n=%d|%s|%s", len(d.Stmts), want.kind(), shp)] = true
					if got != want.Allowed {
						c.Violation(explainEval(d, q, got), id, evalDetail("evaluator-direct", e.Bucket, js, q, got, want))
					}
				}
				if sh == 0 && i < 1 {
					q := e.freeQuery(cr, d, callers)
					c.Sample(map[string]any{"lane": "evaluator", "policy": string(js), "query": q, "reference": decide(d, q, refMatchers).kind()})
				}
			}
			c.Eval(n)
			c.Add("evaluator_cases", n)
			for k := range classes {
				c.Distinct(k)
			}
		}(sh)
	}
	wg.Wait()
}

func firstLine(s string) string {
	if i := strings.Index(s, "<Description>"); i >= 0 {
		s = s[i+13:]
		if j := strings.Index(s, "</Description>"); j >= 0 {
			s = s[:j]
		}
	}
	if i := strings.IndexByte(s, '\n'); i >= 0 {
		s = s[:i]
	}
	if len(s) > 80 {
		s = s[:80]
	}
	return s
}

// ---------------------------------------------------------------- lane B: end to end

// keys that the posix backend can hold side by side ("d" is only ever a directory)
var e2eKeys = []string{"a", "b", "ab", "abc", "axb", "a*b", "a*xb", "aéb", "a𝄞b", "a?b", "a.b", "d/a", "d/ab", "d/e/a", "*", "?", "é", "a**b"}

const (
	user1, secret1 = "user1", "secretsecret1"
	user2, secret2 = "user2", "secretsecret2"
	user3, secret3 = "user3", "secretsecret3"
)

type probeResult int

const (
	prAllowed probeResult = iota
	prDenied
	prUnclear
)

func probe(cl *s3c.Client, bucket, action, key string) (probeResult, *s3c.Resp) {
	var resp *s3c.Resp
	switch action {
	case "s3:GetObject":
		resp = cl.GetObject(bucket, key)
	case "s3:PutObject":
		resp = cl.PutObject(bucket, key, []byte("by "+cl.AK))
	case "s3:DeleteObject":
		resp = cl.DeleteObject(bucket, key)
	case "s3:ListBucket":
		resp = cl.ListV2(bucket)
	default:
		panic("no probe for " + action)
	}
	switch {
	case resp.Err != nil:
		return prUnclear, resp
	case resp.Status == 403 && resp.ErrCode() == "AccessDenied":
		return prDenied, resp
	case resp.OK(), resp.Status == 404 && resp.ErrCode() == "NoSuchKey":
		return prAllowed, resp
	}
	return prUnclear, resp
}

func getPolicy(cl *s3c.Client, b string) *s3c.Resp { return cl.Sub("GET", b, "", "policy", nil) }
func putPolicy(cl *s3c.Client, b string, body []byte) *s3c.Resp {
	if body == nil {
		body = []byte{}
	}
	return cl.Sub("PUT", b, "", "policy", body)
}

type e2e struct {
	c    *ev.Ctx
	env  *fx.Env
	dead sync.Once
}

func (x *e2e) transport(id string, resp *s3c.Resp) {
	if _, cr := x.env.Dead(); cr != nil {
		x.dead.Do(func() {
			x.c.Violation("e2e:gateway-died", id, map[string]any{"crash": cr.Message, "frame": cr.TopFrame})
		})
		return
	}
	x.c.Inconclusive("transport error")
}

func knownE2E(u string) bool { return u == user1 || u == user2 || u == user3 }

// e2eQuery picks a probe whose outcome the document is likely to decide non-trivially.
func e2eQuery(r *rand.Rand, d *doc, bucket, caller string, keys []string) query {
	q := query{Bucket: bucket, Caller: caller, Action: pick(r, probeActions)}
	s := &d.Stmts[r.Intn(len(d.Stmts))]
	if r.Intn(3) > 0 {
		if a := instantiateAction(r, pick(r, s.Act)); containsStr(probeActions, a) {
			q.Action = a
		}
	}
	if q.Action == "s3:ListBucket" {
		return q
	}
	q.Object = pick(r, keys)
	if r.Intn(3) > 0 {
		var m []string
		for _, k := range keys {
			for _, res := range s.Res {
				if refGlob(strings.TrimPrefix(res, arn), bucket+"/"+k) {
					m = append(m, k)
					break
				}
			}
		}
		if len(m) > 0 {
			q.Object = pick(r, m)
		}
	}
	return q
}

func laneE2E(c *ev.Ctx) {
	if !c.Want("e2e") {
		return
	}
	env, err := fx.New("c14", gw.Config{}, 1)
	if err != nil {
		c.Inconclusive("gateway start: " + err.Error())
		return
	}
	defer env.Close()
	x := &e2e{c: c, env: env}
	root := env.Client(0)
	for _, u := range [][2]string{{user1, secret1}, {user2, secret2}, {user3, secret3}} {
		if r := env.CreateUser(u[0], u[1], "user", 0, 0); !r.OK() {
			c.Inconclusive("create user: " + r.String())
			return
		}
	}
	buckets := []string{"bucket", "bkt", "my.bucket-1", "b-4"}
	keys := map[string][]string{}
	for _, b := range buckets {
		if r := root.CreateBucket(b); !r.OK() {
			c.Inconclusive("create bucket: " + r.String())
			return
		}
		for _, k := range e2eKeys {
			put := root.PutObject(b, k, []byte("seed "+k))
			get := root.GetObject(b, k)
			if put.OK() && get.OK() && string(get.Body) == "seed "+k {
				keys[b] = append(keys[b], k)
			} else {
				c.Observe("seed key not storable, left out: " + k + " (" + put.String() + ")")
			}
		}
		if len(keys[b]) < 10 {
			c.Inconclusive("too few seed keys storable")
			return
		}
		// user1 becomes the bucket owner: the policy, once set, must decide for the owner too
		if r := root.Admin("/change-bucket-owner", s3c.Q("bucket", b, "owner", user1), nil); !r.OK() {
			c.Inconclusive("change-bucket-owner: " + r.String())
			return
		}
		u1, u2 := root.With(user1, secret1), root.With(user2, secret2)
		if a, r := probe(u1, b, "s3:GetObject", "a"); a != prAllowed {
			c.Inconclusive("baseline: owner without policy cannot read: " + r.String())
			return
		}
		if a, r := probe(u2, b, "s3:GetObject", "a"); a != prDenied {
			c.Inconclusive("baseline: stranger without policy is not denied: " + r.String())
			return
		}
	}
	c.Assume("end to end: bucket owner = user1 (role user), user2 = unrelated account (role user); policies are put and read by the root account, which bypasses policies by design")

	e2eInvalid(x, root, "bucket", keys["bucket"])

	total := c.Pick(60, 1000)
	var wg sync.WaitGroup
	for sh, b := range buckets {
		shid := fmt.Sprintf("e2e/pol/%d", sh)
		if !c.Want(shid) {
			continue
		}
		wg.Add(1)
		go func(sh int, b string) {
			defer wg.Done()
			e2ePolicies(x, env.Client(0), shid, b, keys[b], total/len(buckets))
		}(sh, b)
	}
	wg.Wait()
	e2eBatches(x, env.Client(0), "e2e/batch", "bucket", c.Pick(30, 300))
	bypassBatchLane(c, false)
	bypassBatchLane(c, true)
	if _, cr := env.Dead(); cr != nil {
		x.dead.Do(func() {
			c.Violation("e2e:gateway-died", "e2e", map[string]any{"crash": cr.Message, "frame": cr.TopFrame})
		})
	}
}

func e2ePolicies(x *e2e, root *s3c.Client, shid, b string, keys []string, n int) {
	c := x.c
	r := c.Rng(shid)
	users := map[string]*s3c.Client{user1: root.With(user1, secret1), user2: root.With(user2, secret2)}
	e := &genEnv{Bucket: b, Users: []string{user1, user2, user3}, Alpha: []rune{'a', 'b', 'x', '/', '*', '?', '.', 'é', '𝄞', 'd'}, Keys: keys}
	const probesPerUser = 10
	evals := 0
	for i := 0; i < n; i++ {
		seed := r.Int63()
		pid := fmt.Sprintf("%s/%d", shid, i)
		if c.Only != "" && !c.Want(pid) {
			continue
		}
		cr := rand.New(rand.NewSource(seed))
		d := e.validDoc(cr, true)
		js := render(d, cr)
		v, class := refValidity(d, b, knownE2E)
		put := putPolicy(root, b, js)
		if put.Err != nil {
			x.transport(pid, put)
			return
		}
		if !put.OK() {
			if v == vValid {
				c.Observe("over-strict: reference-valid policy refused by PutBucketPolicy: " + put.String() + " " + firstLine(string(put.Body)))
			} else {
				c.Observe("ambiguous validity, not judged (put): " + class + ": refused")
			}
			continue
		}
		if v != vValid {
			c.Observe("ambiguous validity, not judged (put): " + class + ": accepted")
		}
		get := getPolicy(root, b)
		if get.Err != nil {
			x.transport(pid, get)
			return
		}
		if !get.OK() || !bytes.Equal(get.Body, js) {
			c.Violation("e2e:stored-policy-differs-from-accepted-document", pid, map[string]any{"lane": "e2e", "bucket": b, "put": string(js), "get_status": get.Status, "get": string(get.Body)})
			continue
		}
		c.Add("e2e_policies_in_force", 1)
		for _, u := range []string{user1, user2} {
			for k := 0; k < probesPerUser; k++ {
				q := e2eQuery(cr, d, b, u, keys)
				id := fmt.Sprintf("%s/%s/%d", pid, u, k)
				if c.Only != "" && !c.Want(id) {
					continue
				}
				res, resp := probe(users[u], b, q.Action, q.Object)
				if resp.Err != nil {
					x.transport(id, resp)
					return
				}
				if res == prUnclear {
					c.Observe("probe answered neither success nor AccessDenied: " + q.Action + " " + resp.String())
					continue
				}
				evals++
				got := res == prAllowed
				want := decide(d, q, refMatchers)
				who := "stranger"
				if u == user1 {
					who = "owner"
				}
				c.Distinct(fmt.Sprintf("e2e|%s|%s|%s", q.Action, want.kind(), who))
				if got == want.Allowed {
					continue
				}
				direct, perr := implDecide(js, q)
				sig := ""
				if perr == nil && direct == got {
					sig = explainEval(d, q, got) // the evaluator itself deviates
				} else {
					dir := "over-deny"
					if got {
						dir = "over-allow"
					}
					sig = fmt.Sprintf("e2e:%s:%s:%s:request-disagrees-with-evaluator", q.Action, dir, who)
				}
				det := evalDetail("e2e", b, js, q, got, want)
				det["status"] = resp.String()
				det["direct_evaluator_allowed"] = direct
				c.Violation(sig, id, det)
			}
		}
		if i == 0 {
			c.Sample(map[string]any{"lane": "e2e", "bucket": b, "policy": string(js)})
		}
	}
	c.Eval(evals)
	c.Add("e2e_probe_requests", evals)
}

// refusalStage: where a document of this class can at the earliest be refused.
func refusalStage(class string) string {
	if strings.HasPrefix(class, "json-") || strings.HasPrefix(class, "statement-") {
		return "refused-at-decoding"
	}
	return "refused-at-validation"
}

// e2eInvalid: every invalid class put over a valid policy must be refused and
// must leave the old policy bytes and the old decisions in place.
func e2eInvalid(x *e2e, root *s3c.Client, b string, keys []string) {
	c := x.c
	if !c.Want("e2e/inv") {
		return
	}
	u1, u2 := root.With(user1, secret1), root.With(user2, secret2)
	p0 := []byte(`{"Version":"2012-10-17","Statement":[{"Effect":"Allow","Principal":"` + user1 + `","Action":"s3:GetObject","Resource":"` + arn + b + `/*"},` +
		`{"Effect":"Allow","Principal":{"AWS":["` + user2 + `"]},"Action":["s3:ListBucket"],"Resource":["` + arn + b + `"]}]}`)
	type pq struct {
		cl     *s3c.Client
		action string
		key    string
		want   probeResult
	}
	// the old policy decides all four: owner may read but not list, stranger may list but not read
	probes := []pq{{u1, "s3:GetObject", "ab", prAllowed}, {u2, "s3:GetObject", "ab", prDenied}, {u2, "s3:ListBucket", "", prAllowed}, {u1, "s3:ListBucket", "", prDenied}}
	install := func() bool {
		if r := putPolicy(root, b, p0); !r.OK() {
			c.Inconclusive("installing the base policy failed: " + r.String())
			return false
		}
		for _, p := range probes {
			if got, r := probe(p.cl, b, p.action, p.key); got != p.want {
				c.Inconclusive("base policy does not decide the probes as the reference says: " + p.action + " " + r.String())
				return false
			}
		}
		return true
	}
	if !install() {
		return
	}
	r := c.Rng("e2e/inv")
	e := &genEnv{Bucket: b, Users: []string{user1, user2, user3}, Alpha: globAlpha, Keys: keys}
	per := c.Pick(2, 12)
	evals := 0
	for _, class := range allInvalidClasses() {
		for k := 0; k < per; k++ {
			seed := r.Int63()
			id := fmt.Sprintf("e2e/inv/%s/%d", class, k)
			if c.Only != "" && !c.Want(id) {
				continue
			}
			cr := rand.New(rand.NewSource(seed))
			gc := e.invalidDoc(cr, class)
			if v, cl := refValidity(gc.Doc, b, knownE2E); v != vInvalid {
				c.Inconclusive("harness: generator built invalid/" + class + " but the reference says " + v.String() + "/" + cl)
				continue
			}
			var put *s3c.Resp
			for n := repsFor(class, 40); n > 0; n-- {
				put = putPolicy(root, b, gc.JSON)
				if put.Err != nil || put.OK() {
					break
				}
			}
			if put.Err != nil {
				x.transport(id, put)
				return
			}
			evals++
			det := map[string]any{"lane": "e2e-invalid-put", "bucket": b, "class": class, "variant": gc.Sub, "put_body": string(gc.JSON), "put_status": put.String(), "old_policy": string(p0)}
			if put.OK() {
				c.Violation(validateSig(class, gc.Sub), id, det)
				c.Distinct(fmt.Sprintf("e2e|inv|%s|%s|accepted", class, gc.Sub))
				c.Add("e2e_invalid_puts_accepted", 1)
				if !install() {
					return
				}
				continue
			}
			if put.Status >= 500 {
				c.Observe("invalid policy refused with a 5xx: " + class + " " + put.String())
			}
			get := getPolicy(root, b)
			if get.Err != nil {
				x.transport(id, get)
				return
			}
			if !get.OK() || !bytes.Equal(get.Body, p0) {
				det["get_status"], det["get_body"] = get.String(), string(get.Body)
				c.Violation("put:refused-but-stored-policy-changed:"+refusalStage(class), id, det)
				if !install() {
					return
				}
				continue
			}
			changed := false
			for _, p := range probes {
				got, resp := probe(p.cl, b, p.action, p.key)
				if resp.Err != nil {
					x.transport(id, resp)
					return
				}
				if got != p.want {
					det["probe"], det["probe_status"] = p.cl.AK+" "+p.action, resp.String()
					c.Violation("put:refused-but-decision-changed:"+refusalStage(class), id, det)
					changed = true
					break
				}
			}
			if changed {
				if !install() {
					return
				}
				continue
			}
			c.Distinct(fmt.Sprintf("e2e|inv|%s|%s|refused-old-policy-in-force", class, gc.Sub))
		}
	}
	c.Eval(evals)
	c.Add("e2e_invalid_puts", evals)
}

// ---------------------------------------------------------------- entry

var finishRule string

func Run(c *ev.Ctx) int {
	c.Assume("the reference treats characters as Unicode code points; generated strings are valid UTF-8")
	c.Assume("action vocabulary = the 37 S3 actions the gateway names (18 object-level, 19 bucket-level); s3:GetBucketObjectLockConfiguration is arguable and not judged")
	c.Assume("not judged (counted as observations): spanning wildcard action with one resource kind, wildcard matching no action, bare '*' action, '*' mixed with named principals, wildcards in the bucket part of a resource, duplicate JSON keys, lower-case member names, leading whitespace, single-object Statement, Condition/NotAction/unknown members")
	c.Assume("missing Effect/Principal/Action/Resource members count as 'not a valid policy' (the statement's list of invalid documents is read as examples)")
	finishRule = "lane A: Resources.Match on many-wildcard patterns x long near-miss subjects under a 20 s watchdog per call; Resources.Match exhaustive over all (pattern, subject) up to length 4/5 over {a,b,*,?} + PRNG pairs over {a,b,/,*,?,.,é,𝄞}; Actions.FindMatch over every prefix pattern x action of the vocabulary; ValidatePolicyDocument over generated valid/invalid(28 classes x variants)/ambiguous documents; VerifyBucketPolicy vs a deny-overrides reference on documents of 1-6 statements in all JSON shapes x 20 targeted queries each. lane B: invalid puts over an existing policy (refused, bytes and decisions unchanged) and Get/Put/Delete/List requests of owner and stranger under generated policies. distinct = (glob pattern class, subject class, result) | (validity verdict, class, variant) | (statement count, decision kind, deciding statement shape) | (probe action, decision kind, owner/stranger) | (invalid class, variant, outcome)"
	laneGlobCost(c)
	laneGlobExhaustive(c)
	laneGlobRandom(c)
	laneComponents(c)
	laneValidity(c)
	laneEvaluator(c)
	laneE2E(c)
	return c.Finish(finishRule, 150)
}
