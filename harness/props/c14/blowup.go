package c14

import (
	"fmt"
	"os"
	"strings"
	"time"

	"verif/harness/internal/ev"
)

// Lane "cost": the policy language is matched on every request of every non-admin caller, so the matcher has to
// answer for every (pattern, subject) a policy document and a key can legally form, including patterns with many
// wildcards against long subjects that almost match. The reference (dynamic programming, pattern x subject steps)
// decides each of these cases in microseconds; the implementation gets 20 s per case, in a goroutine of its own.
// A case that does not return cannot be interrupted: it is reported and the run ends.
func laneGlobCost(c *ev.Ctx) {
	type kase struct{ name, p, s string }
	var cases []kase
	for _, stars := range []int{8, 17, 30} {
		for _, sep := range []string{"/", "a", "ab"} {
			for _, reps := range []int{60, 480} {
				if len(sep)*reps > 1000 {
					continue
				}
				pat := "bucket/logs/" + strings.Repeat("*"+sep, stars) + "*.gz"
				sub := "bucket/logs/" + strings.Repeat("d"+sep, reps)
				cases = append(cases, kase{fmt.Sprintf("stars=%d|sep=%q|reps=%d|near-miss", stars, sep, reps), pat, sub + "app.txt"})
				cases = append(cases, kase{fmt.Sprintf("stars=%d|sep=%q|reps=%d|match", stars, sep, reps), pat, sub + "app.gz"})
			}
		}
		cases = append(cases, kase{fmt.Sprintf("stars=%d|adjacent|near-miss", stars), "b/" + strings.Repeat("*", stars) + "x", "b/" + strings.Repeat("a", 900)})
		cases = append(cases, kase{fmt.Sprintf("stars=%d|star-question|near-miss", stars), "b/" + strings.Repeat("*?", stars) + "x", "b/" + strings.Repeat("a", 900)})
	}
	for i, k := range cases {
		id := fmt.Sprintf("cost/%d", i)
		if !c.Want(id) {
			continue
		}
		want := refGlob(k.p, k.s)
		done := make(chan bool, 1)
		t0 := time.Now()
		go func() { done <- implGlob(k.p, k.s) }()
		c.Eval(1)
		select {
		case got := <-done:
			if got != want {
				c.Violation(classifyGlob(k.p, k.s), id, map[string]any{"lane": "glob-cost", "pattern": k.p, "subject_len": len(k.s), "Resources.Match": got, "reference": want})
			} else {
				c.Distinct("glob-cost|" + k.name)
			}
			if d := time.Since(t0); d > 2*time.Second {
				c.Observe(fmt.Sprintf("Resources.Match needed %s for %s", d.Round(time.Second), k.name))
			}
		case <-time.After(20 * time.Second):
			c.Violation("glob:match-does-not-return:"+strings.SplitN(k.name, "|", 2)[0], id, map[string]any{"lane": "glob-cost", "pattern": k.p, "subject": k.s[:40] + "...", "subject_len": len(k.s),
				"waited_s": 20, "reference_answer": want, "note": "pattern and subject are legal members of a policy document and a key (< 1024 bytes); the call cannot be interrupted, the run ends here"})
			c.Set("ended_early", "a call of Resources.Match did not return")
			os.Exit(c.Finish(finishRule+" [ended early: a call of Resources.Match did not return]", 1))
		}
	}
}
