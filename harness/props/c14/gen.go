package c14

// Abstract policy documents, their JSON renderings (all shapes the property
// quantifies over) and the generators for valid / invalid / ambiguous documents.

import (
	"encoding/json"
	"fmt"
	"math/rand"
	"strings"
	"unicode/utf8"
)

type prinShape int

const (
	psString    prinShape = iota // "x"
	psArray                      // ["x","y"]
	psAWSString                  // {"AWS":"x"}
	psAWSArray                   // {"AWS":["x","y"]}
)

func (p prinShape) String() string { return [...]string{"str", "arr", "aws-str", "aws-arr"}[p] }

type stmt struct {
	Sid string

	Effect    string
	NoEffect  bool
	RawEffect string

	Prin      []string
	PrinShape prinShape
	NoPrin    bool
	RawPrin   string

	Act      []string
	ActArray bool
	NoAct    bool
	RawAct   string

	Res      []string
	ResArray bool
	NoRes    bool
	RawRes   string

	Extra string // raw extra member, e.g. `"Condition":{...}`
	Amb   string // ambiguity introduced by Extra
}

type doc struct {
	Version, ID bool
	Stmts       []stmt

	NoStatement  bool
	RawStatement string // raw JSON value of "Statement"

	IsRaw      bool // JSON-level classes: Raw is the complete text, the fields above are unused
	Raw        string
	RawVerdict verdict
	RawClass   string

	Amb string // document-level ambiguity set by a generator (rendering tricks)

	// rendering tricks (ambiguous classes)
	lowerKeys     bool
	dupStatement  bool
	leadingSpace  bool
	singleStmtObj bool
}

// ---------------------------------------------------------------- rendering

func jsonStr(s string, r *rand.Rand, esc bool) string {
	var sb strings.Builder
	sb.WriteByte('"')
	for _, c := range s {
		u := esc && r != nil && r.Intn(10) == 0
		switch {
		case c == '"' || c == '\\':
			sb.WriteByte('\\')
			sb.WriteRune(c)
		case c < 0x20 || c == 0x7f:
			fmt.Fprintf(&sb, `\u%04x`, c)
		case c == '/' && u:
			sb.WriteString(`\/`)
		case u && c > 0xffff:
			c -= 0x10000
			fmt.Fprintf(&sb, `\u%04x\u%04x`, 0xd800+(c>>10), 0xdc00+(c&0x3ff))
		case u:
			fmt.Fprintf(&sb, `\u%04x`, c)
		default:
			sb.WriteRune(c)
		}
	}
	sb.WriteByte('"')
	return sb.String()
}

type renderer struct {
	r   *rand.Rand
	esc bool
	sp  int // whitespace style
}

func (rd *renderer) colon() string {
	if rd.sp == 1 {
		return ": "
	}
	if rd.sp == 2 {
		return " :\n\t"
	}
	return ":"
}
func (rd *renderer) comma() string {
	if rd.sp == 1 {
		return ", "
	}
	if rd.sp == 2 {
		return ",\r\n  "
	}
	return ","
}

func (rd *renderer) list(vals []string) string {
	parts := make([]string, len(vals))
	for i, v := range vals {
		parts[i] = jsonStr(v, rd.r, rd.esc)
	}
	return "[" + strings.Join(parts, rd.comma()) + "]"
}

func (rd *renderer) strOrList(vals []string, array bool) string {
	if !array && len(vals) == 1 {
		return jsonStr(vals[0], rd.r, rd.esc)
	}
	return rd.list(vals)
}

func (rd *renderer) object(members [][2]string, shuffle bool) string {
	if shuffle && rd.r != nil {
		rd.r.Shuffle(len(members), func(i, j int) { members[i], members[j] = members[j], members[i] })
	}
	parts := make([]string, len(members))
	for i, m := range members {
		if m[0] == "" {
			parts[i] = m[1] // raw member
		} else {
			parts[i] = jsonStr(m[0], nil, false) + rd.colon() + m[1]
		}
	}
	return "{" + strings.Join(parts, rd.comma()) + "}"
}

func (rd *renderer) stmt(s *stmt, lower bool) string {
	k := func(n string) string {
		if lower {
			return strings.ToLower(n)
		}
		return n
	}
	var m [][2]string
	if s.Sid != "" {
		m = append(m, [2]string{"Sid", jsonStr(s.Sid, nil, false)})
	}
	if !s.NoEffect {
		v := jsonStr(s.Effect, nil, false)
		if s.RawEffect != "" {
			v = s.RawEffect
		}
		m = append(m, [2]string{k("Effect"), v})
	}
	if !s.NoPrin {
		var v string
		switch {
		case s.RawPrin != "":
			v = s.RawPrin
		case s.PrinShape == psString && len(s.Prin) == 1:
			v = jsonStr(s.Prin[0], rd.r, rd.esc)
		case s.PrinShape == psAWSString && len(s.Prin) == 1:
			v = "{" + jsonStr("AWS", nil, false) + rd.colon() + jsonStr(s.Prin[0], rd.r, rd.esc) + "}"
		case s.PrinShape == psAWSArray || s.PrinShape == psAWSString:
			v = "{" + jsonStr("AWS", nil, false) + rd.colon() + rd.list(s.Prin) + "}"
		default:
			v = rd.list(s.Prin)
		}
		m = append(m, [2]string{k("Principal"), v})
	}
	if !s.NoAct {
		v := s.RawAct
		if v == "" {
			v = rd.strOrList(s.Act, s.ActArray)
		}
		m = append(m, [2]string{k("Action"), v})
	}
	if !s.NoRes {
		v := s.RawRes
		if v == "" {
			v = rd.strOrList(s.Res, s.ResArray)
		}
		m = append(m, [2]string{k("Resource"), v})
	}
	if s.Extra != "" {
		m = append(m, [2]string{"", s.Extra})
	}
	return rd.object(m, true)
}

// render produces one JSON text of the document; r decides member order,
// whitespace and string escapes (nil = canonical compact form).
func render(d *doc, r *rand.Rand) []byte {
	if d.IsRaw {
		return []byte(d.Raw)
	}
	rd := &renderer{r: r}
	if r != nil {
		rd.esc = r.Intn(3) == 0
		rd.sp = r.Intn(4) % 3
	}
	var m [][2]string
	if d.Version {
		m = append(m, [2]string{"Version", `"2012-10-17"`})
	}
	if d.ID {
		m = append(m, [2]string{"Id", `"policy-1"`})
	}
	stName := "Statement"
	if d.lowerKeys {
		stName = "statement"
	}
	if !d.NoStatement {
		v := d.RawStatement
		if v == "" {
			parts := make([]string, len(d.Stmts))
			for i := range d.Stmts {
				parts[i] = rd.stmt(&d.Stmts[i], d.lowerKeys)
			}
			if d.singleStmtObj && len(parts) == 1 {
				v = parts[0]
			} else {
				v = "[" + strings.Join(parts, rd.comma()) + "]"
			}
		}
		if d.dupStatement {
			m = append(m, [2]string{stName, "[]"})
		}
		m = append(m, [2]string{stName, v})
	}
	out := rd.object(m, !d.dupStatement)
	if d.leadingSpace {
		out = " " + out
	}
	return []byte(out)
}

// ---------------------------------------------------------------- generation environment

type genEnv struct {
	Bucket string
	Users  []string // existing accounts usable as principals
	Keys   []string // key hints from which resource patterns are derived
	Alpha  []rune   // alphabet of free-form glob patterns / keys
}

var globAlpha = []rune{'a', 'b', '/', '*', '?', '.', 'é', '𝄞'}

func pick[T any](r *rand.Rand, l []T) T { return l[r.Intn(len(l))] }

func randString(r *rand.Rand, alpha []rune, min, max int) string {
	n := min + r.Intn(max-min+1)
	var sb strings.Builder
	for i := 0; i < n; i++ {
		sb.WriteRune(alpha[r.Intn(len(alpha))])
	}
	return sb.String()
}

// generalize turns a key into a pattern matching it (and more).
func generalize(r *rand.Rand, key string) string {
	rs := []rune(key)
	var sb strings.Builder
	for i := 0; i < len(rs); i++ {
		switch x := r.Intn(10); {
		case x < 6:
			sb.WriteRune(rs[i])
		case x < 8:
			sb.WriteByte('?')
		default:
			sb.WriteByte('*')
			i += r.Intn(3) // swallow a run (possibly empty: keep the char)
			if r.Intn(2) == 0 && i < len(rs) {
				sb.WriteRune(rs[i])
			}
		}
	}
	return sb.String()
}

func (e *genEnv) keyPattern(r *rand.Rand) string {
	switch x := r.Intn(20); {
	case x < 4:
		return "*"
	case x < 7:
		return pick(r, e.Keys)
	case x < 14:
		return generalize(r, pick(r, e.Keys))
	case x < 16:
		return pick(r, []string{"?", "??", "???", "a*", "*b", "a?b", "a??b", "a*b", "d/*", "*/*", "*.*", "a**b", "?*", "*?"})
	default:
		return randString(r, e.Alpha, 1, 6)
	}
}

var probeActions = []string{"s3:GetObject", "s3:PutObject", "s3:DeleteObject", "s3:ListBucket"}

func (e *genEnv) actionPattern(r *rand.Rand) string {
	base := pick(r, allActions)
	if r.Intn(10) < 7 {
		base = pick(r, probeActions)
	}
	switch x := r.Intn(10); {
	case x < 6:
		return base
	case x < 7:
		return "s3:*"
	default:
		cut := 3 + r.Intn(len(base)-3+1)
		return base[:cut] + "*"
	}
}

func (e *genEnv) principal(r *rand.Rand, s *stmt) {
	switch x := r.Intn(8); {
	case x < 2:
		s.Prin = []string{"*"}
		s.PrinShape = prinShape(r.Intn(4))
	case x < 6:
		s.Prin = []string{pick(r, e.Users)}
		s.PrinShape = prinShape(r.Intn(4))
	default:
		n := 2 + r.Intn(2)
		s.Prin = nil
		for i := 0; i < n; i++ {
			s.Prin = append(s.Prin, pick(r, e.Users))
		}
		s.PrinShape = pick(r, []prinShape{psArray, psAWSArray})
	}
}

// validStmt builds a statement that is valid for the bucket (unless
// allowAmbiguous lets a spanning wildcard go with one resource kind).
func (e *genEnv) validStmt(r *rand.Rand, allowAmbiguous bool) stmt {
	var s stmt
	s.Effect = "Allow"
	if r.Intn(20) < 7 {
		s.Effect = "Deny"
	}
	if r.Intn(4) == 0 {
		s.Sid = fmt.Sprintf("S%d", r.Intn(100))
	}
	e.principal(r, &s)
	n := 1
	if r.Intn(3) == 0 {
		n = 2 + r.Intn(2)
	}
	for i := 0; i < n; i++ {
		s.Act = append(s.Act, e.actionPattern(r))
	}
	s.ActArray = len(s.Act) > 1 || r.Intn(2) == 0
	needObject, needBucket := false, false
	for _, a := range s.Act {
		o, b, _ := kindsCovered(a)
		if o && b && allowAmbiguous && r.Intn(6) == 0 {
			continue // leave the kinds to chance: ambiguous validity
		}
		needObject = needObject || o
		needBucket = needBucket || b
	}
	if !needObject && !needBucket {
		needObject = true
	}
	if needObject {
		k := 1 + r.Intn(2)
		for i := 0; i < k; i++ {
			s.Res = append(s.Res, arn+e.Bucket+"/"+e.keyPattern(r))
		}
	}
	if needBucket || r.Intn(8) == 0 {
		s.Res = append(s.Res, arn+e.Bucket)
	}
	if !needObject && r.Intn(8) == 0 {
		s.Res = append(s.Res, arn+e.Bucket+"/"+e.keyPattern(r))
	}
	r.Shuffle(len(s.Res), func(i, j int) { s.Res[i], s.Res[j] = s.Res[j], s.Res[i] })
	s.ResArray = len(s.Res) > 1 || r.Intn(2) == 0
	return s
}

func (e *genEnv) validDoc(r *rand.Rand, allowAmbiguous bool) *doc {
	d := &doc{Version: r.Intn(2) == 0, ID: r.Intn(5) == 0}
	n := 1 + r.Intn(6)
	for i := 0; i < n; i++ {
		d.Stmts = append(d.Stmts, e.validStmt(r, allowAmbiguous))
	}
	return d
}

// ---------------------------------------------------------------- invalid classes

type variant struct{ label, val string }

// insertInto replaces the list by [bad] or mixes bad into the valid values.
func insertInto(r *rand.Rand, l []string, bad string) []string {
	if r.Intn(2) == 0 {
		return []string{bad}
	}
	out := append([]string{}, l...)
	i := r.Intn(len(out) + 1)
	out = append(out[:i], append([]string{bad}, out[i:]...)...)
	return out
}

type stmtInjection struct {
	class string
	apply func(e *genEnv, r *rand.Rand, s *stmt) (sub string)
}

func objOnlyRes(e *genEnv, r *rand.Rand) []string {
	l := []string{arn + e.Bucket + "/" + e.keyPattern(r)}
	if r.Intn(3) == 0 {
		l = append(l, arn+e.Bucket+"/*")
	}
	return l
}

var stmtInjections = []stmtInjection{
	{"missing-effect", func(e *genEnv, r *rand.Rand, s *stmt) string { s.NoEffect = true; return "" }},
	{"missing-principal", func(e *genEnv, r *rand.Rand, s *stmt) string { s.NoPrin = true; return "" }},
	{"missing-action", func(e *genEnv, r *rand.Rand, s *stmt) string { s.NoAct = true; return "" }},
	{"missing-resource", func(e *genEnv, r *rand.Rand, s *stmt) string {
		s.NoRes = true
		if containsStr(s.Act, "s3:*") {
			return "beside-s3-star"
		}
		return ""
	}},
	{"effect-unknown", func(e *genEnv, r *rand.Rand, s *stmt) string {
		v := pick(r, []variant{{"lower", "allow"}, {"upper", "DENY"}, {"permit", "Permit"}, {"empty", ""}, {"trailing-blank", "Allow "}})
		s.Effect = v.val
		return v.label
	}},
	{"effect-wrong-type", func(e *genEnv, r *rand.Rand, s *stmt) string {
		v := pick(r, []variant{{"number", "1"}, {"bool", "true"}, {"list", `["Allow"]`}, {"null", "null"}})
		s.RawEffect = v.val
		return v.label
	}},
	{"principal-unknown-account", func(e *genEnv, r *rand.Rand, s *stmt) string {
		u := e.Users[0]
		v := pick(r, []variant{{"other-name", "nouser"}, {"suffix", u + "x"}, {"upper", strings.ToUpper(u)}, {"truncated", u[:len(u)-1]}, {"blank-padded", " " + u}})
		if len(s.Prin) == 1 && s.Prin[0] == "*" && r.Intn(2) == 0 {
			// the unknown account next to the wildcard (in either order): every member has to be a principal
			s.Prin = []string{"*", v.val}
			if r.Intn(2) == 0 {
				s.Prin = []string{v.val, "*"}
			}
			v.label += "+beside-star"
		} else if len(s.Prin) == 1 && s.Prin[0] == "*" {
			s.Prin = []string{v.val}
		} else {
			s.Prin = insertInto(r, s.Prin, v.val)
		}
		if len(s.Prin) > 1 && (s.PrinShape == psString || s.PrinShape == psAWSString) {
			s.PrinShape = pick(r, []prinShape{psArray, psAWSArray})
		}
		return v.label
	}},
	{"principal-bad-shape", func(e *genEnv, r *rand.Rand, s *stmt) string {
		v := pick(r, []variant{{"service-object", `{"Service":"s3.amazonaws.com"}`}, {"federated-object", `{"Federated":"x"}`}, {"aws-number", `{"AWS":5}`},
			{"empty-object", `{}`}, {"empty-list", `[]`}, {"empty-string", `""`}, {"aws-empty-list", `{"AWS":[]}`}, {"aws-empty-string", `{"AWS":""}`},
			{"number", `5`}, {"bool", `true`}, {"aws-object", `{"AWS":{"x":"y"}}`}, {"list-of-number", `[5]`}, {"null", `null`}, {"list-of-empty", `[""]`}})
		s.RawPrin = v.val
		return v.label
	}},
	{"action-unknown", func(e *genEnv, r *rand.Rand, s *stmt) string {
		v := pick(r, []variant{{"unknown-name", "s3:Foo"}, {"lower-case", "s3:getobject"}, {"no-service-prefix", "GetObject"}, {"prefix-only", "s3:"},
			{"leading-wildcard", "s3:*Object"}, {"inner-wildcard", "s3:Get*Object"}, {"other-service", "ec2:RunInstances"}, {"trailing-blank", "s3:GetObject "},
			{"upper-service", "S3:GetObject"}, {"question-mark", "s3:GetObjec?"}, {"superstring", "s3:GetObjects"}})
		s.Act = insertInto(r, s.Act, v.val)
		s.ActArray = len(s.Act) > 1 || s.ActArray
		return v.label
	}},
	{"action-wrong-type", func(e *genEnv, r *rand.Rand, s *stmt) string {
		v := pick(r, []variant{{"number", `5`}, {"object", `{}`}, {"empty-list", `[]`}, {"empty-string", `""`}, {"list-of-number", `[5]`}, {"null", `null`}, {"bool", `true`}, {"list-of-empty", `[""]`}})
		s.RawAct = v.val
		return v.label
	}},
	{"resource-no-arn-prefix", func(e *genEnv, r *rand.Rand, s *stmt) string {
		b := e.Bucket
		v := pick(r, []variant{{"bare", b + "/*"}, {"two-colons", "arn:aws:s3::" + b + "/*"}, {"upper", "ARN:AWS:S3:::" + b + "/*"}, {"no-arn-word", "aws:s3:::" + b},
			{"leading-blank", " " + arn + b + "/*"}, {"prefix-only", arn}, {"other-service", "arn:aws:ec2:::" + b + "/*"}})
		s.Res = insertInto(r, s.Res, v.val)
		s.ResArray = len(s.Res) > 1 || s.ResArray
		return v.label
	}},
	{"resource-leading-slash", func(e *genEnv, r *rand.Rand, s *stmt) string {
		v := pick(r, []variant{{"slash-bucket", arn + "/" + e.Bucket + "/*"}, {"slash-only", arn + "/"}})
		s.Res = insertInto(r, s.Res, v.val)
		s.ResArray = len(s.Res) > 1 || s.ResArray
		return v.label
	}},
	{"resource-other-bucket", func(e *genEnv, r *rand.Rand, s *stmt) string {
		b := e.Bucket
		v := pick(r, []variant{{"unrelated-objects", arn + "other/*"}, {"unrelated-bucket", arn + "other"}, {"truncated-name", arn + b[:len(b)-1] + "/*"},
			{"name-as-suffix", arn + "x" + b + "/*"}, {"upper-case-name", arn + strings.ToUpper(b) + "/*"}, {"name-as-key", arn + "other/" + b + "/*"}})
		s.Res = insertInto(r, s.Res, v.val)
		s.ResArray = len(s.Res) > 1 || s.ResArray
		return v.label
	}},
	{"resource-bucket-prefix-collision", func(e *genEnv, r *rand.Rand, s *stmt) string {
		b := e.Bucket
		v := pick(r, []variant{{"objects", arn + b + "X/*"}, {"bucket", arn + b + "X"}, {"dash", arn + b + "-2/*"}, {"dot", arn + b + ".x/k"}, {"digit", arn + b + "0"}})
		s.Res = insertInto(r, s.Res, v.val)
		s.ResArray = len(s.Res) > 1 || s.ResArray
		return "" // every spelling is the same collision: one signature
	}},
	{"resource-wrong-type", func(e *genEnv, r *rand.Rand, s *stmt) string {
		v := pick(r, []variant{{"number", `5`}, {"object", `{}`}, {"empty-list", `[]`}, {"empty-string", `""`}, {"list-of-number", `[5]`}, {"null", `null`}, {"list-of-empty", `[""]`}})
		s.RawRes = v.val
		return v.label
	}},
	{"kind-object-action-without-object-resource", func(e *genEnv, r *rand.Rand, s *stmt) string {
		s.Act = []string{pick(r, objectActions)}
		if r.Intn(3) == 0 {
			s.Act = append(s.Act, pick(r, objectActions))
		}
		sub := "exact"
		if r.Intn(4) == 0 {
			s.Act = []string{pick(r, []string{"s3:GetObject*", "s3:PutObject*", "s3:DeleteObject*", "s3:Abort*", "s3:Restore*"})}
			sub = "single-kind-wildcard"
		}
		s.ActArray = len(s.Act) > 1 || r.Intn(2) == 0
		s.Res = []string{arn + e.Bucket}
		s.ResArray = r.Intn(2) == 0
		return sub
	}},
	{"kind-bucket-action-without-bucket-resource", func(e *genEnv, r *rand.Rand, s *stmt) string {
		s.Act = []string{pick(r, bucketActions)}
		sub := "exact"
		if r.Intn(4) == 0 {
			s.Act = []string{pick(r, []string{"s3:GetBucket*", "s3:PutBucket*", "s3:ListBucket*", "s3:DeleteBucket*", "s3:CreateBucket*"})}
			sub = "single-kind-wildcard"
		}
		s.ActArray = r.Intn(2) == 0
		s.Res = objOnlyRes(e, r)
		s.ResArray = len(s.Res) > 1 || r.Intn(2) == 0
		return sub
	}},
	{"kind-one-of-several-actions", func(e *genEnv, r *rand.Rand, s *stmt) string {
		s.Act = []string{pick(r, objectActions), pick(r, bucketActions)}
		r.Shuffle(2, func(i, j int) { s.Act[i], s.Act[j] = s.Act[j], s.Act[i] })
		s.ActArray = true
		if r.Intn(2) == 0 {
			s.Res = []string{arn + e.Bucket}
			s.ResArray = r.Intn(2) == 0
			return "bucket-resource-only"
		}
		s.Res = objOnlyRes(e, r)
		s.ResArray = len(s.Res) > 1 || r.Intn(2) == 0
		return "object-resource-only"
	}},
	{"kind-mismatch-beside-s3-star", func(e *genEnv, r *rand.Rand, s *stmt) string {
		s.ActArray = true
		if r.Intn(2) == 0 {
			s.Act = []string{"s3:*", pick(r, objectActions)}
			s.Res = []string{arn + e.Bucket}
			s.ResArray = r.Intn(2) == 0
		} else {
			s.Act = []string{"s3:*", pick(r, bucketActions)}
			s.Res = objOnlyRes(e, r)
			s.ResArray = len(s.Res) > 1 || r.Intn(2) == 0
		}
		if r.Intn(2) == 0 {
			s.Act[0], s.Act[1] = s.Act[1], s.Act[0]
		}
		return ""
	}},
	{"kind-mismatch-beside-prefix-wildcard", func(e *genEnv, r *rand.Rand, s *stmt) string {
		s.ActArray = true
		w := pick(r, []string{"s3:Get*", "s3:Put*", "s3:List*", "s3:Delete*", "s3:G*"})
		if r.Intn(2) == 0 {
			s.Act = []string{w, pick(r, objectActions)}
			s.Res = []string{arn + e.Bucket}
			s.ResArray = r.Intn(2) == 0
		} else {
			s.Act = []string{w, pick(r, bucketActions)}
			s.Res = objOnlyRes(e, r)
			s.ResArray = len(s.Res) > 1 || r.Intn(2) == 0
		}
		if r.Intn(2) == 0 {
			s.Act[0], s.Act[1] = s.Act[1], s.Act[0]
		}
		return ""
	}},
}

// document-level invalid classes
var docInvalidClasses = []string{"json-truncated", "json-trailing-garbage", "json-not-object", "json-syntax",
	"statement-empty-list", "statement-missing", "statement-null", "statement-wrong-type"}

type genCase struct {
	Doc     *doc
	JSON    []byte
	Verdict verdict
	Class   string // verdict class (invalid: the injected class; ambiguous: the reason)
	Sub     string // variant label
}

// invalidDoc builds a document of the given invalid class around valid statements.
func (e *genEnv) invalidDoc(r *rand.Rand, class string) genCase {
	for _, inj := range stmtInjections {
		if inj.class != class {
			continue
		}
		d := e.validDoc(r, false)
		i := r.Intn(len(d.Stmts))
		sub := inj.apply(e, r, &d.Stmts[i])
		return genCase{Doc: d, JSON: render(d, r), Verdict: vInvalid, Class: class, Sub: sub}
	}
	base := e.validDoc(r, false)
	txt := string(render(base, r))
	d := &doc{IsRaw: true, RawVerdict: vInvalid, RawClass: class}
	sub := ""
	switch class {
	case "json-truncated":
		d.Raw = txt[:1+r.Intn(len(txt)-1)]
		for !utf8.ValidString(d.Raw) {
			d.Raw = d.Raw[:len(d.Raw)-1]
		}
	case "json-trailing-garbage":
		v := pick(r, []variant{{"word", " trailing"}, {"second-object", "{}"}, {"brace", "}"}, {"comma", ","}, {"nul", "\x00"}})
		d.Raw, sub = txt+v.val, v.label
	case "json-not-object":
		v := pick(r, []variant{{"array", "[" + txt + "]"}, {"string", `"policy"`}, {"null", "null"}, {"number", "42"}, {"empty", ""}, {"xml", "<Policy/>"}, {"bare-word", "Statement"}})
		d.Raw, sub = v.val, v.label
	case "json-syntax":
		for tries := 0; tries < 50; tries++ {
			b := []byte(txt)
			var idx []int
			for i, c := range b {
				if strings.IndexByte(`:,"[]{}`, c) >= 0 {
					idx = append(idx, i)
				}
			}
			i := idx[r.Intn(len(idx))]
			sub = "drop-" + map[byte]string{':': "colon", ',': "comma", '"': "quote", '[': "bracket", ']': "bracket", '{': "brace", '}': "brace"}[b[i]]
			b = append(b[:i], b[i+1:]...)
			if !json.Valid(b) && len(b) > 0 {
				d.Raw = string(b)
				break
			}
		}
		if d.Raw == "" {
			d.Raw, sub = txt[:len(txt)-1], "drop-brace"
		}
	case "statement-empty-list":
		d2 := &doc{Version: r.Intn(2) == 0, RawStatement: "[]"}
		j := render(d2, r)
		return genCase{Doc: &doc{IsRaw: true, Raw: string(j), RawVerdict: vInvalid, RawClass: class}, JSON: j, Verdict: vInvalid, Class: class}
	case "statement-missing":
		d2 := &doc{Version: r.Intn(2) == 0, ID: r.Intn(2) == 0, NoStatement: true}
		j := render(d2, r)
		return genCase{Doc: &doc{IsRaw: true, Raw: string(j), RawVerdict: vInvalid, RawClass: class}, JSON: j, Verdict: vInvalid, Class: class}
	case "statement-null":
		d2 := &doc{Version: r.Intn(2) == 0, RawStatement: "null"}
		j := render(d2, r)
		return genCase{Doc: &doc{IsRaw: true, Raw: string(j), RawVerdict: vInvalid, RawClass: class}, JSON: j, Verdict: vInvalid, Class: class}
	case "statement-wrong-type":
		v := pick(r, []variant{{"string", `"x"`}, {"number", `5`}, {"bool", `true`}, {"list-of-number", `[5]`}, {"list-of-string", `["x"]`}, {"list-of-list", `[[]]`}, {"list-of-null", `[null]`}, {"list-of-empty-object", `[{}]`}})
		d2 := &doc{Version: r.Intn(2) == 0, RawStatement: v.val}
		j := render(d2, r)
		return genCase{Doc: &doc{IsRaw: true, Raw: string(j), RawVerdict: vInvalid, RawClass: class}, JSON: j, Verdict: vInvalid, Class: class, Sub: v.label}
	default:
		panic("unknown invalid class " + class)
	}
	return genCase{Doc: d, JSON: []byte(d.Raw), Verdict: vInvalid, Class: class, Sub: sub}
}

func allInvalidClasses() []string {
	var l []string
	for _, i := range stmtInjections {
		l = append(l, i.class)
	}
	return append(l, docInvalidClasses...)
}

// ---------------------------------------------------------------- ambiguous classes

var ambiguousClasses = []string{"wildcard-action-one-resource-kind", "wildcard-matches-no-action", "action-bare-star",
	"star-mixed-with-named-principals", "resource-bucket-part-wildcard", "arguable-action", "duplicate-keys", "lowercase-keys",
	"leading-whitespace", "statement-single-object", "condition-present", "not-action", "unknown-member"}

func (e *genEnv) ambiguousDoc(r *rand.Rand, class string) genCase {
	d := e.validDoc(r, false)
	s := &d.Stmts[r.Intn(len(d.Stmts))]
	switch class {
	case "wildcard-action-one-resource-kind":
		s.Act = []string{pick(r, []string{"s3:*", "s3:Get*", "s3:Put*", "s3:List*", "s3:Delete*"})}
		s.ActArray = r.Intn(2) == 0
		if r.Intn(2) == 0 {
			s.Res = []string{arn + e.Bucket}
		} else {
			s.Res = objOnlyRes(e, r)
		}
		s.ResArray = len(s.Res) > 1 || r.Intn(2) == 0
	case "wildcard-matches-no-action":
		s.Act = insertInto(r, s.Act, pick(r, []string{"s3:Foo*", "s3:getobject*", "s3:GetObjectX*", "s3:**"}))
		s.ActArray = len(s.Act) > 1 || s.ActArray
	case "action-bare-star":
		s.Act = []string{"*"}
		s.Res = []string{arn + e.Bucket, arn + e.Bucket + "/*"}
		s.ResArray = true
	case "star-mixed-with-named-principals":
		s.Prin = []string{"*", pick(r, e.Users)}
		r.Shuffle(2, func(i, j int) { s.Prin[i], s.Prin[j] = s.Prin[j], s.Prin[i] })
		s.PrinShape = pick(r, []prinShape{psArray, psAWSArray})
	case "resource-bucket-part-wildcard":
		b := e.Bucket
		s.Res = insertInto(r, s.Res, pick(r, []string{arn + "*", arn + b[:len(b)-1] + "*", arn + b + "*", arn + b[:1] + "?" + b[2:] + "/*", arn + "*/*", arn + b + "*/x"}))
		s.ResArray = len(s.Res) > 1 || s.ResArray
	case "arguable-action":
		s.Act = insertInto(r, s.Act, arguableAction)
		s.ActArray = len(s.Act) > 1 || s.ActArray
		if !containsStr(s.Res, arn+e.Bucket) {
			s.Res = append(s.Res, arn+e.Bucket)
			s.ResArray = true
		}
	case "duplicate-keys":
		d.dupStatement, d.Amb = true, class
	case "lowercase-keys":
		d.lowerKeys, d.Amb = true, class
	case "leading-whitespace":
		d.leadingSpace, d.Amb = true, class
	case "statement-single-object":
		d.Stmts = d.Stmts[:1]
		d.singleStmtObj, d.Amb = true, class
	case "condition-present":
		s.Extra, s.Amb = `"Condition":{"Bool":{"aws:SecureTransport":"true"}}`, class
	case "not-action":
		s.Extra, s.Amb = `"NotAction":"s3:DeleteObject"`, class
	case "unknown-member":
		s.Extra, s.Amb = `"Frobnicate":[1,2,3]`, class
	default:
		panic("unknown ambiguous class " + class)
	}
	return genCase{Doc: d, JSON: render(d, r), Verdict: vAmbiguous, Class: class}
}

// ---------------------------------------------------------------- queries

// instantiate produces a subject that the pattern matches (reference-wise).
func instantiate(r *rand.Rand, pattern string, alpha []rune) string {
	var sb strings.Builder
	for _, c := range pattern {
		switch c {
		case '*':
			sb.WriteString(randString(r, alpha, 0, 3))
		case '?':
			sb.WriteRune(alpha[r.Intn(len(alpha))])
		default:
			sb.WriteRune(c)
		}
	}
	return sb.String()
}

func mutate(r *rand.Rand, s string, alpha []rune) string {
	rs := []rune(s)
	switch x := r.Intn(3); {
	case x == 0 || len(rs) == 0:
		i := r.Intn(len(rs) + 1)
		rs = append(rs[:i], append([]rune{alpha[r.Intn(len(alpha))]}, rs[i:]...)...)
	case x == 1:
		i := r.Intn(len(rs))
		rs = append(rs[:i], rs[i+1:]...)
	default:
		rs[r.Intn(len(rs))] = alpha[r.Intn(len(alpha))]
	}
	return string(rs)
}

func instantiateAction(r *rand.Rand, pattern string) string {
	var m []string
	for _, a := range allActions {
		if refActionMatch(pattern, a) {
			m = append(m, a)
		}
	}
	if len(m) == 0 {
		return pick(r, allActions)
	}
	// prefer the probe actions when covered
	var pm []string
	for _, a := range m {
		if containsStr(probeActions, a) {
			pm = append(pm, a)
		}
	}
	if len(pm) > 0 && r.Intn(3) > 0 {
		return pick(r, pm)
	}
	return pick(r, m)
}

// freeQuery generates one (caller, action, object) for the direct evaluator lane.
func (e *genEnv) freeQuery(r *rand.Rand, d *doc, callers []string) query {
	q := query{Bucket: e.Bucket, Caller: pick(r, callers)}
	s := &d.Stmts[r.Intn(len(d.Stmts))]
	if r.Intn(3) > 0 && len(s.Prin) > 0 {
		if p := pick(r, s.Prin); p != "*" {
			q.Caller = p
		}
	}
	if r.Intn(4) > 0 && len(s.Act) > 0 {
		q.Action = instantiateAction(r, pick(r, s.Act))
	} else if r.Intn(2) == 0 {
		q.Action = pick(r, probeActions)
	} else {
		q.Action = pick(r, allActions)
	}
	if actionKind[q.Action] == "bucket" && r.Intn(8) > 0 {
		return q
	}
	var objPats []string
	for _, res := range s.Res {
		rest := strings.TrimPrefix(res, arn)
		if _, k, ok := strings.Cut(rest, "/"); ok {
			objPats = append(objPats, k)
		}
	}
	switch x := r.Intn(10); {
	case x < 6 && len(objPats) > 0:
		q.Object = instantiate(r, pick(r, objPats), e.Alpha)
		if r.Intn(10) < 3 {
			q.Object = mutate(r, q.Object, e.Alpha)
		}
	case x < 8:
		q.Object = pick(r, e.Keys)
	default:
		q.Object = randString(r, e.Alpha, 0, 6)
	}
	return q
}
