package c14

// Classification of refuting observations into stable, narrow signatures.
// The oracle is always the reference in ref.go; the code under test is only
// consulted here to find out *which* component of it explains a mismatch.

import (
	"errors"
	"fmt"
	"strings"
	"unicode/utf8"

	"github.com/versity/versitygw/auth"
	"github.com/versity/versitygw/s3err"
)

func implGlob(pattern, subject string) bool { return auth.Resources{}.Match(pattern, subject) }

func implActions(patterns []string, action string) bool {
	a := auth.Actions{}
	for _, p := range patterns {
		a[auth.Action(p)] = struct{}{}
	}
	return a.FindMatch(auth.Action(action))
}

func implPrincipals(principals []string, caller string) bool {
	p := auth.Principals{}
	for _, x := range principals {
		p.Add(x)
	}
	return p.Contains(caller)
}

// implDecide calls the exported evaluator; parseErr is set when the document
// could not be read at all (not an access decision).
func implDecide(policy []byte, q query) (allowed bool, parseErr error) {
	err := auth.VerifyBucketPolicy(policy, q.Caller, q.Bucket, q.Object, auth.Action(q.Action))
	if err == nil {
		return true, nil
	}
	var ae s3err.APIError
	if errors.As(err, &ae) && ae.Code == "AccessDenied" {
		return false, nil
	}
	return false, err
}

// ---------------------------------------------------------------- glob

func hasMultibyte(s string) bool { return len(s) != utf8.RuneCountInString(s) }

// fresh ASCII letters that occur in neither string
func freshLetters(p, s string, n int) []rune {
	var out []rune
	for c := 'z'; c >= 'c' && len(out) < n; c-- {
		if !strings.ContainsRune(p, c) && !strings.ContainsRune(s, c) {
			out = append(out, c)
		}
	}
	for len(out) < n {
		out = append(out, rune('0'+len(out)))
	}
	return out
}

// neutralStar replaces the literal `*` characters of the subject by a letter
// that occurs nowhere else: in the pattern `*` is always the wildcard, so a
// literal `*` of the subject can only ever be consumed by a wildcard, exactly
// like that fresh letter - the reference result is unchanged.
func neutralStar(p, s string) string {
	f := freshLetters(p, s, 1)[0]
	return strings.ReplaceAll(s, "*", string(f))
}

// neutralMB replaces every distinct multi-byte character consistently (pattern
// and subject) by a distinct fresh one-byte letter: the reference result is unchanged.
func neutralMB(p, s string) (string, string) {
	m := map[rune]rune{}
	for _, c := range p + s {
		if c >= utf8.RuneSelf {
			m[c] = 0
		}
	}
	f := freshLetters(p, s, len(m))
	i := 0
	for _, c := range p + s {
		if c >= utf8.RuneSelf && m[c] == 0 {
			m[c] = f[i]
			i++
		}
	}
	conv := func(x string) string {
		return strings.Map(func(c rune) rune {
			if v, ok := m[c]; ok {
				return v
			}
			return c
		}, x)
	}
	return conv(p), conv(s)
}

func globFails(p, s string) bool { return implGlob(p, s) != refGlob(p, s) }

// knownGlobFeature attributes a failing pair to a feature of the pair whose
// removal (by a transformation that provably preserves the reference result)
// makes the matcher answer correctly.
func knownGlobFeature(p, s string) string {
	starIn := strings.Contains(s, "*")
	mb := hasMultibyte(p) || hasMultibyte(s)
	if starIn && !globFails(p, neutralStar(p, s)) {
		return "glob:literal-star-in-subject"
	}
	if mb {
		np, ns := neutralMB(p, s)
		if !globFails(np, ns) {
			if strings.Contains(p, "?") {
				return "glob:question-mark-multibyte"
			}
			return "glob:multibyte-without-question-mark"
		}
		if starIn && !globFails(np, neutralStar(np, ns)) {
			return "glob:literal-star-in-subject+multibyte"
		}
	}
	return ""
}

func dropRune(s string, i int) string {
	rs := []rune(s)
	return string(append(rs[:i:i], rs[i+1:]...))
}

// shape renders a string with canonical letters: wildcards kept, one-byte
// literals a,b,c.. by first occurrence over (pattern, subject), multi-byte literals U.
func shapes(p, s string) (string, string) {
	m := map[rune]rune{}
	next := 'a'
	conv := func(x string, isPattern bool) string {
		var sb strings.Builder
		for _, c := range x {
			switch {
			case isPattern && (c == '*' || c == '?'):
				sb.WriteRune(c)
			case c == '*':
				sb.WriteString("[*]")
			case c == '?':
				sb.WriteString("[?]")
			case c >= utf8.RuneSelf:
				sb.WriteByte('U')
			default:
				if _, ok := m[c]; !ok {
					m[c] = next
					next++
				}
				sb.WriteRune(m[c])
			}
		}
		return sb.String()
	}
	return conv(p, true), conv(s, false)
}

// classifyGlob returns the signature of a failing (pattern, subject) pair.
func classifyGlob(p, s string) string {
	if f := knownGlobFeature(p, s); f != "" {
		return f
	}
	// shrink to a 1-minimal failing pair that still is not attributable
	for changed := true; changed; {
		changed = false
		for i := 0; i < utf8.RuneCountInString(p); i++ {
			if q := dropRune(p, i); globFails(q, s) && knownGlobFeature(q, s) == "" {
				p, changed = q, true
				break
			}
		}
		for i := 0; i < utf8.RuneCountInString(s); i++ {
			if q := dropRune(s, i); globFails(p, q) && knownGlobFeature(p, q) == "" {
				s, changed = q, true
				break
			}
		}
		if changed {
			continue
		}
		// one character from each side at once (a literal and the character it matches)
	pairs:
		for i := 0; i < utf8.RuneCountInString(p); i++ {
			for j := 0; j < utf8.RuneCountInString(s); j++ {
				if q, t := dropRune(p, i), dropRune(s, j); globFails(q, t) && knownGlobFeature(q, t) == "" {
					p, s, changed = q, t, true
					break pairs
				}
			}
		}
	}
	dir := "over-match"
	if refGlob(p, s) {
		dir = "under-match"
	}
	ps, ss := shapes(p, s)
	return fmt.Sprintf("glob:%s:pattern=%s:subject=%s", dir, ps, ss)
}

// ---------------------------------------------------------------- action / principal components

func actionPatternKind(p string) string {
	switch {
	case p == "s3:*":
		return "all"
	case strings.HasSuffix(p, "*") && !strings.Contains(p[:len(p)-1], "*"):
		return "prefix-wildcard"
	case strings.Contains(p, "*"):
		return "inner-wildcard"
	}
	return "exact"
}

func classifyAction(pattern, action string) string {
	stem := strings.TrimSuffix(pattern, "*")
	rel := "unrelated"
	switch {
	case pattern == action:
		rel = "equal"
	case strings.HasPrefix(action, stem):
		rel = "prefix"
	case strings.Contains(action, strings.TrimPrefix(stem, "s3:")):
		rel = "substring-not-prefix"
	case strings.EqualFold(stem, action[:min(len(action), len(stem))]):
		rel = "case-differs"
	}
	dir := "over-match"
	if refActionMatch(pattern, action) {
		dir = "under-match"
	}
	return fmt.Sprintf("action-match:%s:%s:%s", actionPatternKind(pattern), rel, dir)
}

func classifyPrincipal(principals []string, caller string) string {
	dir := "over-match"
	if refPrincipalMatch(principals, caller) {
		dir = "under-match"
	}
	rel := "absent"
	for _, p := range principals {
		switch {
		case p == caller:
			rel = "listed"
		case p == "*" && rel == "absent":
			rel = "star"
		case strings.EqualFold(p, caller) && rel == "absent":
			rel = "case-differs"
		case (strings.HasPrefix(p, caller) || strings.HasPrefix(caller, p)) && rel == "absent":
			rel = "prefix"
		}
	}
	return fmt.Sprintf("principal-match:%s:%s", rel, dir)
}

// ---------------------------------------------------------------- evaluator

func stmtShape(s *stmt) string {
	a, r := "str", "str"
	if s.ActArray || len(s.Act) > 1 {
		a = "arr"
	}
	if s.ResArray || len(s.Res) > 1 {
		r = "arr"
	}
	return fmt.Sprintf("p=%s,a=%s,r=%s", s.PrinShape, a, r)
}

// explainEval names the defect behind "the evaluator answered got, the
// reference answers otherwise" for one (document, query).
func explainEval(d *doc, q query, got bool) string {
	want := decide(d, q, refMatchers)
	if want.Allowed == got {
		return ""
	}
	res := q.resource()
	// one component of the code under test substituted into the reference fold
	withGlob := refMatchers
	withGlob.glob = implGlob
	if decide(d, q, withGlob).Allowed == got {
		for i := range d.Stmts {
			for _, r := range d.Stmts[i].Res {
				p := strings.TrimPrefix(r, arn)
				if globFails(p, res) {
					return classifyGlob(p, res)
				}
			}
		}
	}
	withAct := refMatchers
	withAct.act = implActions
	if decide(d, q, withAct).Allowed == got {
		for i := range d.Stmts {
			for _, a := range d.Stmts[i].Act {
				if implActions([]string{a}, q.Action) != refActionMatch(a, q.Action) {
					return classifyAction(a, q.Action)
				}
			}
		}
		return "action-match:set-level"
	}
	withPrin := refMatchers
	withPrin.prin = implPrincipals
	if decide(d, q, withPrin).Allowed == got {
		for i := range d.Stmts {
			if implPrincipals(d.Stmts[i].Prin, q.Caller) != refPrincipalMatch(d.Stmts[i].Prin, q.Caller) {
				return classifyPrincipal(d.Stmts[i].Prin, q.Caller)
			}
		}
	}
	all := matchers{implGlob, implActions, implPrincipals}
	if decide(d, q, all).Allowed == got {
		// several components at once; name the glob one if there is one
		for i := range d.Stmts {
			for _, r := range d.Stmts[i].Res {
				p := strings.TrimPrefix(r, arn)
				if globFails(p, res) {
					return classifyGlob(p, res) + "+other-component"
				}
			}
		}
		return "eval:several-components"
	}
	// the components agree with the reference: the fold or the document decoding is off
	switch {
	case got && len(want.DenyMatched) > 0 && len(want.AllowMatched) > 0:
		firstDeny, firstAllow := want.DenyMatched[0], want.AllowMatched[0]
		lastAllow := want.AllowMatched[len(want.AllowMatched)-1]
		pos := "deny-between-allows"
		if firstDeny < firstAllow {
			pos = "deny-before-allow"
		} else if firstDeny > lastAllow {
			pos = "deny-after-allow"
		}
		return "eval:deny-does-not-override:" + pos
	case got && len(want.DenyMatched) > 0:
		return "eval:allowed-with-only-deny-matching"
	case got:
		return "eval:allowed-without-matching-allow"
	}
	// denied although an Allow statement matches and no Deny does
	s := &d.Stmts[want.AllowMatched[0]]
	return "eval:denied-despite-matching-allow:" + stmtShape(s)
}
