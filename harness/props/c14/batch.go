package c14

import (
	"fmt"
	"math/rand"
	"strings"

	"verif/harness/internal/s3c"
)

// Batch sub-lane of lane B: "a request is allowed exactly when ... matches caller, ACTION and resource". One
// DeleteObjects request carries several (action, resource) pairs: an entry with a VersionId asks for
// s3:DeleteObjectVersion on its key, an entry without one for s3:DeleteObject. Policies here are built over exactly
// these two actions (alone, together, as s3:DeleteObject* and s3:*; Allow and Deny; whole bucket and single keys), and
// batches mix both kinds of entry in every order. The batch may be served only if the reference allows every entry;
// the gateway refuses the whole batch otherwise. (Objects need not exist: a delete of a missing key is a success.)
func e2eBatches(x *e2e, root *s3c.Client, shid, b string, n int) {
	c := x.c
	if !c.Want(shid) {
		return
	}
	r := c.Rng(shid)
	users := map[string]*s3c.Client{user1: root.With(user1, secret1), user2: root.With(user2, secret2)}
	keys := []string{"a", "b", "ab", "d/a"}
	actSets := [][]string{{"s3:DeleteObject"}, {"s3:DeleteObjectVersion"}, {"s3:DeleteObject", "s3:DeleteObjectVersion"}, {"s3:DeleteObject*"}, {"s3:*"}, {"s3:GetObject", "s3:DeleteObjectVersion"}}
	evals := 0
	for i := 0; i < n; i++ {
		pid := fmt.Sprintf("%s/%d", shid, i)
		cr := rand.New(rand.NewSource(r.Int63()))
		if c.Only != "" && !c.Want(pid) {
			continue
		}
		d := &doc{Version: true}
		for k := 1 + cr.Intn(3); k > 0; k-- {
			s := stmt{Effect: "Allow", Prin: []string{"*"}, Act: actSets[cr.Intn(len(actSets))], ActArray: true, ResArray: true}
			if len(d.Stmts) > 0 && cr.Intn(2) == 0 {
				s.Effect = "Deny"
			}
			if cr.Intn(3) == 0 {
				s.Prin, s.PrinShape = []string{[]string{user1, user2}[cr.Intn(2)]}, psAWSArray
			}
			switch cr.Intn(3) {
			case 0:
				s.Res = []string{arn + b + "/*"}
			case 1:
				s.Res = []string{arn + b + "/" + keys[cr.Intn(len(keys))]}
			default:
				s.Res = []string{arn + b + "/" + keys[cr.Intn(len(keys))], arn + b + "/" + keys[cr.Intn(len(keys))]}
			}
			d.Stmts = append(d.Stmts, s)
		}
		js := render(d, cr)
		if put := putPolicy(root, b, js); !put.OK() {
			if put.Err != nil {
				x.transport(pid, put)
				return
			}
			c.Observe("batch sub-lane: policy refused: " + put.String() + " " + firstLine(string(put.Body)))
			continue
		}
		for _, u := range []string{user1, user2} {
			for k := 0; k < 6; k++ {
				id := fmt.Sprintf("%s/%s/%d", pid, u, k)
				if c.Only != "" && !c.Want(id) {
					continue
				}
				type entry struct {
					key       string
					versioned bool
				}
				var ents []entry
				shape := ""
				for m := 2 + cr.Intn(3); m > 0; m-- {
					e := entry{keys[cr.Intn(len(keys))], cr.Intn(2) == 0}
					ents = append(ents, e)
					if e.versioned {
						shape += "v"
					} else {
						shape += "p"
					}
				}
				var sb strings.Builder
				sb.WriteString(`<Delete xmlns="http://s3.amazonaws.com/doc/2006-03-01/">`)
				allAllowed := true
				var per []string
				for _, e := range ents {
					q := query{Caller: u, Bucket: b, Object: e.key, Action: "s3:DeleteObject"}
					sb.WriteString("<Object><Key>" + s3c.XMLEsc(e.key) + "</Key>")
					if e.versioned {
						q.Action = "s3:DeleteObjectVersion"
						sb.WriteString("<VersionId>null</VersionId>")
					}
					sb.WriteString("</Object>")
					w := decide(d, q, refMatchers)
					allAllowed = allAllowed && w.Allowed
					per = append(per, fmt.Sprintf("%s on %s: allowed=%v", q.Action, e.key, w.Allowed))
				}
				sb.WriteString("</Delete>")
				body := []byte(sb.String())
				resp := users[u].Do(&s3c.Req{Method: "POST", Path: "/" + b, Query: "delete=", Body: body, Header: s3c.H{{"Content-MD5", s3c.MD5B64(body)}}})
				if resp.Err != nil {
					x.transport(id, resp)
					return
				}
				var got bool
				switch {
				case resp.Status == 403 && resp.ErrCode() == "AccessDenied":
					got = false
				case resp.OK():
					got = true
				default:
					c.Observe("batch probe answered neither success nor AccessDenied: " + resp.String())
					continue
				}
				evals++
				who := "stranger"
				if u == user1 {
					who = "owner"
				}
				// the shape class: where the first versioned entry stands relative to plain ones
				cls := "plain-only"
				switch {
				case strings.Contains(shape, "vp"):
					cls = "versioned-before-plain"
				case strings.Contains(shape, "pv"):
					cls = "plain-before-versioned"
				case strings.Contains(shape, "v"):
					cls = "versioned-only"
				}
				c.Distinct(fmt.Sprintf("e2e|DeleteObjects|%s|allowed=%v|%s", cls, allAllowed, who))
				if got == allAllowed {
					continue
				}
				dir := "over-deny"
				if got {
					dir = "over-allow"
				}
				c.Violation(fmt.Sprintf("e2e:DeleteObjects:%s:%s:%s", dir, cls, who), id, map[string]any{"lane": "e2e batch", "bucket": b, "policy": string(js),
					"caller": u, "entries": per, "request_body": string(body), "answer": resp.String(), "reference_allows_batch": allAllowed})
			}
		}
		// the seed keys are put back for the other sub-lanes
		for _, k := range keys {
			root.PutObject(b, k, []byte("seed "+k))
		}
	}
	c.Eval(evals)
	c.Add("e2e_batch_requests", evals)
}
