package c14

import (
	"fmt"
	"strings"
	"time"

	"verif/harness/internal/ev"
	"verif/harness/internal/fx"
	"verif/harness/internal/gw"
	"verif/harness/internal/s3c"
)

func clipS(s string, n int) string {
	s = strings.ToValidUTF8(s, "?")
	if len(s) > n {
		return s[:n]
	}
	return s
}

// Bypass-batch sub-lane (the lane of the same name in C03, here for the policy clause "a request is allowed exactly when
// ... matches caller, action AND RESOURCE"): "the decision is taken per object, also for every key of a batch delete" - including the decision
// whether the caller may bypass GOVERNANCE retention. The account holds s3:BypassGovernanceRetention on tmp/* only;
// batch deletes with the bypass header name protected versions under tmp/ (may go) and under keep/ (must stay) in
// every order. Whatever is answered, no version under keep/ may be gone afterwards.
func bypassBatchLane(c *ev.Ctx, sidecar bool) {
	store := "xattr"
	if sidecar {
		store = "sidecar"
	}
	id := "e2e/bypass-batch/" + store
	if !c.Want(id) {
		return
	}
	env, err := fx.New("c14bb", gw.Config{Sidecar: sidecar, Versioning: true}, 1)
	if err != nil {
		c.Inconclusive("gateway start (bypass-batch lane): " + err.Error())
		return
	}
	defer env.Close()
	root := env.Client(0)
	if r := env.CreateUser("alice", "alice-secret-1", "user", 0, 0); r.Status != 201 {
		c.Inconclusive("create user: " + r.String())
		return
	}
	alice := root.With("alice", "alice-secret-1")
	const b = "lockb"
	if r := root.CreateBucket(b, "x-amz-bucket-object-lock-enabled", "true"); !r.OK() {
		c.Inconclusive("create lock bucket: " + r.String())
		return
	}
	pol := fmt.Sprintf(`{"Version":"2012-10-17","Statement":[{"Effect":"Allow","Principal":{"AWS":["alice"]},"Action":["s3:DeleteObject","s3:DeleteObjectVersion","s3:GetObject","s3:GetObjectVersion","s3:ListBucket"],"Resource":["arn:aws:s3:::%s","arn:aws:s3:::%s/*"]},{"Effect":"Allow","Principal":{"AWS":["alice"]},"Action":"s3:BypassGovernanceRetention","Resource":"arn:aws:s3:::%s/tmp/*"}]}`, b, b, b)
	if r := root.Sub("PUT", b, "", "policy=", []byte(pol)); !r.OK() {
		c.Inconclusive("put policy: " + r.String())
		return
	}
	until := time.Now().Add(48 * time.Hour).UTC().Format("2006-01-02T15:04:05Z")
	put := func(key string) string {
		r := root.PutObject(b, key, []byte("protected data of "+key), "X-Amz-Object-Lock-Mode", "GOVERNANCE", "X-Amz-Object-Lock-Retain-Until-Date", until)
		if !r.OK() {
			return ""
		}
		return r.Header.Get("X-Amz-Version-Id")
	}
	orders := [][]string{{"tmp/a", "keep/b"}, {"keep/b", "tmp/a"}, {"tmp/a", "tmp/c", "keep/b", "keep/d"}, {"keep/b"}, {"tmp/a", "keep/b", "tmp/c"}}
	for oi, order := range orders {
		vids := map[string]string{}
		okPut := true
		for _, k := range order {
			key := fmt.Sprintf("%s-%d", k, oi)
			if vids[key] = put(key); vids[key] == "" {
				okPut = false
			}
		}
		if !okPut {
			c.Inconclusive("bypass-batch lane: protected upload refused")
			return
		}
		for _, withVid := range []bool{true, false} {
			var sb strings.Builder
			sb.WriteString(`<Delete xmlns="http://s3.amazonaws.com/doc/2006-03-01/">`)
			for _, k := range order {
				key := fmt.Sprintf("%s-%d", k, oi)
				sb.WriteString("<Object><Key>" + key + "</Key>")
				if withVid {
					sb.WriteString("<VersionId>" + vids[key] + "</VersionId>")
				}
				sb.WriteString("</Object>")
			}
			sb.WriteString("</Delete>")
			body := []byte(sb.String())
			resp := alice.Do(&s3c.Req{Method: "POST", Path: "/" + b, Query: "delete=", Body: body, Header: s3c.H{{"Content-MD5", s3c.MD5B64(body)}, {"X-Amz-Bypass-Governance-Retention", "true"}}})
			c.Eval(1)
			if resp.Err != nil {
				c.Inconclusive("transport error in bypass-batch lane")
				return
			}
			bad := false
			for _, k := range order {
				if !strings.HasPrefix(k, "keep/") {
					continue
				}
				key := fmt.Sprintf("%s-%d", k, oi)
				g := root.GetObjectV(b, key, vids[key])
				if !g.OK() || string(g.Body) != "protected data of "+key {
					c.Violation(fmt.Sprintf("bypass-batch:protected-version-outside-the-bypass-grant-deleted:order%d[%s]", oi, store), id, map[string]any{"batch_order": order, "entries_carry_version_ids": withVid,
						"answer": resp.String(), "body": clipS(string(resp.Body), 300), "lost": key + "?versionId=" + vids[key], "get": g.String(), "policy": "s3:BypassGovernanceRetention on lockb/tmp/* only"})
					bad = true
				}
			}
			if !bad {
				c.Distinct(fmt.Sprintf("bb|order%d|vid=%v|%s", oi, withVid, store))
			}
		}
	}
}
