package c14

// Reference semantics written from the property statement of C14. Nothing in
// this file calls into /repo.

import "strings"

const arn = "arn:aws:s3:::"

// ---------------------------------------------------------------- glob

// refGlob: `*` matches any run of characters (also the empty run), `?` matches
// exactly one character, everything else matches itself. Characters are
// Unicode code points.
func refGlob(pattern, subject string) bool {
	return refGlobR([]rune(pattern), []rune(subject))
}

func refGlobR(p, s []rune) bool {
	// cur[j]: p[:i] matches s[:j]
	cur := make([]bool, len(s)+1)
	next := make([]bool, len(s)+1)
	cur[0] = true
	for i := 0; i < len(p); i++ {
		for j := range next {
			next[j] = false
		}
		switch p[i] {
		case '*':
			seen := false
			for j := 0; j <= len(s); j++ {
				if cur[j] {
					seen = true
				}
				next[j] = seen
			}
		case '?':
			for j := 0; j < len(s); j++ {
				if cur[j] {
					next[j+1] = true
				}
			}
		default:
			for j := 0; j < len(s); j++ {
				if cur[j] && s[j] == p[i] {
					next[j+1] = true
				}
			}
		}
		cur, next = next, cur
	}
	return cur[len(s)]
}

// ---------------------------------------------------------------- action vocabulary

// S3 actions of the gateway's vocabulary by the kind of resource they apply to.
var objectActions = []string{
	"s3:AbortMultipartUpload", "s3:ListMultipartUploadParts", "s3:PutObject", "s3:GetObject", "s3:GetObjectVersion",
	"s3:DeleteObject", "s3:GetObjectAcl", "s3:GetObjectAttributes", "s3:PutObjectAcl", "s3:RestoreObject",
	"s3:GetObjectTagging", "s3:PutObjectTagging", "s3:DeleteObjectTagging", "s3:GetObjectLegalHold", "s3:PutObjectLegalHold",
	"s3:GetObjectRetention", "s3:PutObjectRetention", "s3:BypassGovernanceRetention",
}

var bucketActions = []string{
	"s3:GetBucketAcl", "s3:CreateBucket", "s3:PutBucketAcl", "s3:DeleteBucket", "s3:PutBucketVersioning", "s3:GetBucketVersioning",
	"s3:PutBucketPolicy", "s3:GetBucketPolicy", "s3:DeleteBucketPolicy", "s3:ListBucketMultipartUploads", "s3:GetBucketTagging",
	"s3:PutBucketTagging", "s3:ListBucketVersions", "s3:ListBucket", "s3:PutBucketObjectLockConfiguration",
	"s3:PutBucketOwnershipControls", "s3:GetBucketOwnershipControls", "s3:PutBucketCORS", "s3:GetBucketCORS",
}

// an action the gateway itself checks on requests but whose membership in the
// policy vocabulary is arguable (not judged)
const arguableAction = "s3:GetBucketObjectLockConfiguration"

var allActions []string
var actionKind = map[string]string{} // "object" | "bucket"

func init() {
	for _, a := range objectActions {
		actionKind[a] = "object"
	}
	for _, a := range bucketActions {
		actionKind[a] = "bucket"
	}
	allActions = append(append([]string{}, objectActions...), bucketActions...)
}

// refActionMatch: exact name, `s3:*`, or a trailing-`*` prefix.
func refActionMatch(pattern, action string) bool {
	if pattern == action || pattern == "s3:*" {
		return true
	}
	if strings.HasSuffix(pattern, "*") {
		return strings.HasPrefix(action, pattern[:len(pattern)-1])
	}
	return false
}

func refActionsMatch(patterns []string, action string) bool {
	for _, p := range patterns {
		if refActionMatch(p, action) {
			return true
		}
	}
	return false
}

// refPrincipalMatch: exact id or `*`.
func refPrincipalMatch(principals []string, caller string) bool {
	for _, p := range principals {
		if p == "*" || p == caller {
			return true
		}
	}
	return false
}

// ---------------------------------------------------------------- evaluator

type query struct {
	Caller, Action, Bucket, Object string
}

func (q query) resource() string {
	if q.Object == "" {
		return q.Bucket
	}
	return q.Bucket + "/" + q.Object
}

// component matchers; the reference ones by default, replaceable for
// attribution of a mismatch to one component of the code under test.
type matchers struct {
	glob func(pattern, subject string) bool
	act  func(patterns []string, action string) bool
	prin func(principals []string, caller string) bool
}

var refMatchers = matchers{refGlob, refActionsMatch, refPrincipalMatch}

type decision struct {
	Allowed      bool
	AllowMatched []int // indices of matching Allow statements
	DenyMatched  []int
}

func stmtMatches(s *stmt, q query, m matchers) bool {
	if !m.prin(s.Prin, q.Caller) || !m.act(s.Act, q.Action) {
		return false
	}
	res := q.resource()
	for _, r := range s.Res {
		if m.glob(strings.TrimPrefix(r, arn), res) {
			return true
		}
	}
	return false
}

// decide: allowed exactly when at least one Allow statement matches caller,
// action and resource and no Deny statement matches.
func decide(d *doc, q query, m matchers) decision {
	var dec decision
	for i := range d.Stmts {
		s := &d.Stmts[i]
		if !stmtMatches(s, q, m) {
			continue
		}
		if s.Effect == "Deny" {
			dec.DenyMatched = append(dec.DenyMatched, i)
		} else {
			dec.AllowMatched = append(dec.AllowMatched, i)
		}
	}
	dec.Allowed = len(dec.AllowMatched) > 0 && len(dec.DenyMatched) == 0
	return dec
}

func (d decision) kind() string {
	switch {
	case d.Allowed:
		return "allow"
	case len(d.DenyMatched) > 0 && len(d.AllowMatched) > 0:
		return "deny-overrides-allow"
	case len(d.DenyMatched) > 0:
		return "explicit-deny-only"
	}
	return "implicit-deny"
}

// ---------------------------------------------------------------- validity

type verdict int

const (
	vValid verdict = iota
	vInvalid
	vAmbiguous
)

func (v verdict) String() string { return [...]string{"valid", "invalid", "ambiguous"}[v] }

// kindsCovered: which resource kinds the actions selected by one action pattern apply to.
func kindsCovered(pattern string) (object, bucket, known bool) {
	if k, ok := actionKind[pattern]; ok {
		return k == "object", k == "bucket", true
	}
	if !strings.HasPrefix(pattern, "s3:") || !strings.HasSuffix(pattern, "*") {
		return false, false, false
	}
	for _, a := range allActions {
		if refActionMatch(pattern, a) {
			known = true
			if actionKind[a] == "object" {
				object = true
			} else {
				bucket = true
			}
		}
	}
	return
}

func hasWild(s string) bool { return strings.ContainsAny(s, "*?") }

// refValidity judges an abstract document for a bucket. Any definite invalidity
// wins over ambiguity.
func refValidity(d *doc, bucket string, knownUser func(string) bool) (verdict, string) {
	if d.IsRaw {
		return d.RawVerdict, d.RawClass
	}
	if d.NoStatement || d.RawStatement != "" {
		return vInvalid, "statement-missing-or-wrong-type"
	}
	if len(d.Stmts) == 0 {
		return vInvalid, "statement-empty-list"
	}
	amb := ""
	invalid := ""
	inv := func(c string) {
		if invalid == "" {
			invalid = c
		}
	}
	am := func(c string) {
		if amb == "" {
			amb = c
		}
	}
	if d.Amb != "" {
		am(d.Amb)
	}
	for i := range d.Stmts {
		s := &d.Stmts[i]
		if s.Amb != "" {
			am(s.Amb)
		}
		// effect
		switch {
		case s.NoEffect:
			inv("missing-effect")
		case s.RawEffect != "":
			inv("effect-wrong-type")
		case s.Effect != "Allow" && s.Effect != "Deny":
			inv("effect-unknown")
		}
		// principal
		switch {
		case s.NoPrin:
			inv("missing-principal")
		case s.RawPrin != "":
			inv("principal-bad-shape")
		case len(s.Prin) == 0:
			inv("principal-bad-shape")
		default:
			star, named := false, false
			for _, p := range s.Prin {
				if p == "*" {
					star = true
					continue
				}
				named = true
				if p == "" {
					inv("principal-bad-shape")
				} else if !knownUser(p) {
					inv("principal-unknown-account")
				}
			}
			if star && named {
				am("star-mixed-with-named-principals")
			}
		}
		// actions
		needObject, needBucket := false, false
		spanning := false
		switch {
		case s.NoAct:
			inv("missing-action")
		case s.RawAct != "":
			inv("action-wrong-type")
		case len(s.Act) == 0:
			inv("action-wrong-type")
		default:
			for _, a := range s.Act {
				if a == arguableAction {
					am("arguable-action")
					continue
				}
				if a == "*" {
					am("action-bare-star")
					continue
				}
				o, b, known := kindsCovered(a)
				if !known {
					stem := strings.TrimRight(a, "*") // "s3:**" is a run of trailing stars: still a trailing-* form
					if strings.HasPrefix(a, "s3:") && stem != a && !strings.Contains(stem, "*") {
						am("wildcard-matches-no-action")
					} else {
						inv("action-unknown")
					}
					continue
				}
				switch {
				case o && b:
					spanning = true
				case o:
					needObject = true
				case b:
					needBucket = true
				}
			}
		}
		// resources
		haveObject, haveBucket := false, false
		switch {
		case s.NoRes:
			inv("missing-resource")
		case s.RawRes != "":
			inv("resource-wrong-type")
		case len(s.Res) == 0:
			inv("resource-wrong-type")
		default:
			for _, r := range s.Res {
				if !strings.HasPrefix(r, arn) {
					inv("resource-no-arn-prefix")
					continue
				}
				rest := r[len(arn):]
				if rest == "" {
					inv("resource-no-arn-prefix")
					continue
				}
				if strings.HasPrefix(rest, "/") {
					inv("resource-leading-slash")
					continue
				}
				bpart, _, isObj := strings.Cut(rest, "/")
				if hasWild(bpart) {
					am("resource-bucket-part-wildcard")
					// which kinds it provides is part of the ambiguity
					haveObject, haveBucket = true, true
					continue
				}
				if bpart != bucket {
					if strings.HasPrefix(bpart, bucket) {
						inv("resource-bucket-prefix-collision")
					} else {
						inv("resource-other-bucket")
					}
					continue
				}
				if isObj {
					haveObject = true
				} else {
					haveBucket = true
				}
			}
		}
		if !s.NoAct && !s.NoRes && s.RawAct == "" && s.RawRes == "" {
			// an action of one kind without any resource of that kind is a
			// definite mismatch, whatever else the statement lists
			if (needObject && !haveObject) || (needBucket && !haveBucket) {
				switch {
				case containsStr(s.Act, "s3:*"):
					inv("kind-mismatch-beside-s3-star")
				case spanning:
					inv("kind-mismatch-beside-prefix-wildcard")
				case needObject && !haveObject:
					inv("kind-object-action-without-object-resource")
				default:
					inv("kind-bucket-action-without-bucket-resource")
				}
			}
			if spanning && !(haveObject && haveBucket) {
				am("wildcard-action-one-resource-kind")
			}
		}
	}
	if invalid != "" {
		return vInvalid, invalid
	}
	if amb != "" {
		return vAmbiguous, amb
	}
	return vValid, "valid"
}

func containsStr(l []string, x string) bool {
	for _, s := range l {
		if s == x {
			return true
		}
	}
	return false
}
