//go:build !solo || solo_c14

package props

import _ "verif/harness/props/c14"
