// Package c11: a gateway crash never leaves a half-written or vanished object.
//
// Fault enumeration: for every operation kind and storage configuration a trace
// run records the ordered hook hits of the operation; then, for every hit j, a
// fresh gateway executes the operation, is held at hit j by the hook scheduler
// and is killed there with SIGKILL. A newly started process is then asked for
// the state of the affected keys (old-or-new monitor with mutually consistent
// data/size/ETag/metadata/tags), for leftovers visible through the API, and
// whether later operations on the key and bucket still work.
package c11

import (
	"encoding/xml"
	"fmt"
	"math/rand"
	"sort"
	"strings"
	"sync"
	"syscall"
	"time"

	"verif/harness/internal/ev"
	"verif/harness/internal/fx"
	"verif/harness/internal/gate"
	"verif/harness/internal/gw"
	"verif/harness/internal/reg"
	"verif/harness/internal/s3c"
	"verif/harness/internal/wid"
)

func init() { reg.Register("C11", "fault_enumeration", Run) }

type cfg struct {
	name    string
	noOTmp  bool
	sidecar bool
}

// kstate is a complete state of one key.
type kstate struct {
	Wid    int               `json:"wid"` // 0 = absent
	Tags   map[string]string `json:"tags,omitempty"`
	Hold   bool              `json:"hold,omitempty"`
	Retain string            `json:"retain,omitempty"`
	Marker bool              `json:"marker,omitempty"` // absent because of a delete marker
}

type kexpect struct {
	Key string
	Old kstate
	New kstate
}

type acked struct {
	Key string
	Vid string
	Wid int
}

type prepared struct {
	bucket    string
	versioned bool
	lock      bool
	keys      []kexpect
	acked     []acked           // version ids acknowledged before the crash
	uploads   map[string]string // upload id -> key known to the model (must stay usable or be gone)
	run       func(cl *s3c.Client) *s3c.Resp
	isDirKey  bool
	part      *partExpect
	mpu       *mpuExpect
}

// mpuExpect: a CompleteMultipartUpload whose parts were acknowledged before the crash.
type mpuExpect struct {
	key, id string
	parts   []s3c.Part
	newWid  int
}

type partExpect struct {
	key, id   string
	n         int
	oldETag   string // "" = part absent
	newETag   string
	otherPart s3c.Part
	oldBody   []byte
	newBody   []byte
	otherBody []byte
}

var opKinds = []string{"PUT-new", "PUT-overwrite", "PUT-overwrite-versioned", "PUT-tags-hold-retention", "PUT-dir-object",
	"COPY-onto", "UPLOAD-PART-new", "UPLOAD-PART-overwrite", "MPU-complete-new", "MPU-complete-overwrite", "MPU-complete-versioned",
	"DELETE", "DELETE-nested", "DELETE-marker-versioned", "DELETE-version-promote", "DELETE-OBJECTS"}

var quickOps = map[string]bool{"PUT-new": true, "PUT-overwrite": true, "PUT-overwrite-versioned": true, "PUT-tags-hold-retention": true,
	"COPY-onto": true, "MPU-complete-overwrite": true, "DELETE": true, "DELETE-marker-versioned": true, "DELETE-version-promote": true,
	"UPLOAD-PART-overwrite": true}

type lane struct {
	c   *ev.Ctx
	cfg cfg
	st  *gw.Store
	ctl *gate.Ctl
	ws  *wid.Set
	nb  int
	mu  sync.Mutex
	pts map[string]bool

	controlFails map[string]bool
	bigSize      int // when > 0 the new write of the operation has this many bytes (timed-kill lane)
}

func (l *lane) gwCfg(gated bool) gw.Config {
	c := gw.Config{Name: "c11" + l.cfg.name, Store: l.st, NoOTmp: l.cfg.noOTmp, Sidecar: l.cfg.sidecar, Versioning: true}
	if gated {
		c.Env = l.ctl.Env("*")
	}
	return c
}

const retainUntil = "2099-01-01T00:00:00Z"

func tagHdr(m map[string]string) string {
	var ks []string
	for k := range m {
		ks = append(ks, k)
	}
	sort.Strings(ks)
	var p []string
	for _, k := range ks {
		p = append(p, k+"="+m[k])
	}
	return strings.Join(p, "&")
}

// prepare creates a fresh bucket, seeds it through cl and returns the operation.
func (l *lane) prepare(op string, cl *s3c.Client) (*prepared, error) {
	l.nb++
	p := &prepared{bucket: fmt.Sprintf("b%s%d", strings.ToLower(strings.ReplaceAll(l.cfg.name, "+", "")), l.nb), uploads: map[string]string{}}
	p.versioned = strings.Contains(op, "versioned") || op == "DELETE-version-promote"
	p.lock = op == "PUT-tags-hold-retention"
	var hdr []string
	if p.lock {
		hdr = []string{"x-amz-bucket-object-lock-enabled", "true"}
	}
	if r := cl.CreateBucket(p.bucket, hdr...); !r.OK() {
		return nil, fmt.Errorf("create bucket: %s", r)
	}
	if p.versioned {
		if r := cl.PutBucketVersioning(p.bucket, "Enabled"); !r.OK() {
			return nil, fmt.Errorf("enable versioning: %s", r)
		}
	}
	b := p.bucket
	put := func(key string, w *wid.Write, extra ...string) (*s3c.Resp, error) {
		r := cl.PutObject(b, key, w.Body, append(w.Hdr(), extra...)...)
		if !r.OK() {
			return r, fmt.Errorf("seed put %s: %s", key, r)
		}
		return r, nil
	}
	// warm-up object so that .sgwtmp exists and the O_TMPFILE path is taken afterwards
	wu := l.ws.Mk(false)
	if _, err := put("warmup", wu); err != nil {
		return nil, err
	}
	p.keys = append(p.keys, kexpect{Key: "warmup", Old: kstate{Wid: wu.ID}, New: kstate{Wid: wu.ID}})
	a := l.ws.Mk(false)
	aTags := map[string]string{"gen": "a"}
	key := "dir/sub/obj"
	seedA := func() error {
		r, err := put(key, a, "X-Amz-Tagging", tagHdr(aTags))
		if err != nil {
			return err
		}
		if p.versioned {
			p.acked = append(p.acked, acked{key, r.Header.Get("X-Amz-Version-Id"), a.ID})
		}
		return nil
	}
	bw := l.ws.Mk(true)
	if l.bigSize > 0 {
		bw = l.ws.MkSize(l.bigSize)
	}
	bTags := map[string]string{"gen": "b", "k2": "v2"}
	switch op {
	case "PUT-new":
		p.keys = append(p.keys, kexpect{key, kstate{}, kstate{Wid: bw.ID, Tags: bTags}})
		p.run = func(c *s3c.Client) *s3c.Resp {
			return c.PutObject(b, key, bw.Body, append(bw.Hdr(), "X-Amz-Tagging", tagHdr(bTags))...)
		}
	case "PUT-overwrite", "PUT-overwrite-versioned":
		if err := seedA(); err != nil {
			return nil, err
		}
		p.keys = append(p.keys, kexpect{key, kstate{Wid: a.ID, Tags: aTags}, kstate{Wid: bw.ID, Tags: bTags}})
		p.run = func(c *s3c.Client) *s3c.Resp {
			return c.PutObject(b, key, bw.Body, append(bw.Hdr(), "X-Amz-Tagging", tagHdr(bTags))...)
		}
	case "PUT-tags-hold-retention":
		p.keys = append(p.keys, kexpect{key, kstate{}, kstate{Wid: bw.ID, Tags: bTags, Hold: true, Retain: "GOVERNANCE"}})
		p.run = func(c *s3c.Client) *s3c.Resp {
			return c.PutObject(b, key, bw.Body, append(bw.Hdr(), "X-Amz-Tagging", tagHdr(bTags), "X-Amz-Object-Lock-Legal-Hold", "ON",
				"X-Amz-Object-Lock-Mode", "GOVERNANCE", "X-Amz-Object-Lock-Retain-Until-Date", retainUntil)...)
		}
	case "PUT-dir-object":
		p.isDirKey = true
		p.keys = append(p.keys, kexpect{"newdir/", kstate{}, kstate{Wid: -2}})
		p.run = func(c *s3c.Client) *s3c.Resp {
			return c.PutObject(b, "newdir/", nil, "X-Amz-Meta-Wid", "dir", "Content-Type", "application/x-directory")
		}
	case "COPY-onto":
		if err := seedA(); err != nil {
			return nil, err
		}
		if _, err := put("src", bw, "X-Amz-Tagging", tagHdr(bTags)); err != nil {
			return nil, err
		}
		p.keys = append(p.keys, kexpect{"src", kstate{Wid: bw.ID, Tags: bTags}, kstate{Wid: bw.ID, Tags: bTags}})
		p.keys = append(p.keys, kexpect{key, kstate{Wid: a.ID, Tags: aTags}, kstate{Wid: bw.ID, Tags: bTags}})
		p.run = func(c *s3c.Client) *s3c.Resp { return c.CopyObject(b, "src", b, key) }
	case "UPLOAD-PART-new", "UPLOAD-PART-overwrite":
		id, r := cl.CreateMPU(b, key, bw.Hdr()...)
		if !r.OK() {
			return nil, fmt.Errorf("create mpu: %s", r)
		}
		p.uploads[id] = key
		p1 := l.ws.MkSize(5<<20 + 7)
		r1 := cl.UploadPart(b, key, id, 1, p1.Body)
		if !r1.OK() {
			return nil, fmt.Errorf("upload part 1: %s", r1)
		}
		pe := &partExpect{key: key, id: id, n: 2, otherPart: s3c.Part{N: 1, ETag: strings.Trim(r1.Header.Get("Etag"), `"`)}, otherBody: p1.Body}
		if op == "UPLOAD-PART-overwrite" {
			old := l.ws.Mk(false)
			r2 := cl.UploadPart(b, key, id, 2, old.Body)
			if !r2.OK() {
				return nil, fmt.Errorf("upload part 2: %s", r2)
			}
			pe.oldETag, pe.oldBody = strings.Trim(r2.Header.Get("Etag"), `"`), old.Body
		}
		nw := l.ws.Mk(true)
		pe.newETag, pe.newBody = nw.MD5, nw.Body
		p.part = pe
		p.keys = append(p.keys, kexpect{key, kstate{}, kstate{}})
		p.run = func(c *s3c.Client) *s3c.Resp { return c.UploadPart(b, key, id, 2, nw.Body) }
	case "MPU-complete-new", "MPU-complete-overwrite", "MPU-complete-versioned":
		old := kstate{}
		if op != "MPU-complete-new" {
			if err := seedA(); err != nil {
				return nil, err
			}
			old = kstate{Wid: a.ID, Tags: aTags}
		}
		id, r := cl.CreateMPU(b, key, append(bw.Hdr(), "X-Amz-Tagging", tagHdr(bTags))...)
		if !r.OK() {
			return nil, fmt.Errorf("create mpu: %s", r)
		}
		r1 := cl.UploadPart(b, key, id, 1, bw.Body)
		if !r1.OK() {
			return nil, fmt.Errorf("upload part: %s", r1)
		}
		l.ws.AliasETag(s3c.MultipartETag([][]byte{bw.Body}), bw)
		p.uploads[id] = key
		etag := strings.Trim(r1.Header.Get("Etag"), `"`)
		p.keys = append(p.keys, kexpect{key, old, kstate{Wid: bw.ID, Tags: bTags}})
		p.mpu = &mpuExpect{key: key, id: id, parts: []s3c.Part{{N: 1, ETag: etag}}, newWid: bw.ID}
		p.run = func(c *s3c.Client) *s3c.Resp { return c.CompleteMPU(b, key, id, []s3c.Part{{N: 1, ETag: etag}}) }
	case "DELETE", "DELETE-nested":
		if op == "DELETE-nested" {
			key = "deep/er/and/deeper/obj"
		}
		if err := seedA(); err != nil {
			return nil, err
		}
		p.keys = append(p.keys, kexpect{key, kstate{Wid: a.ID, Tags: aTags}, kstate{}})
		p.run = func(c *s3c.Client) *s3c.Resp { return c.DeleteObject(b, key) }
	case "DELETE-marker-versioned":
		if err := seedA(); err != nil {
			return nil, err
		}
		p.keys = append(p.keys, kexpect{key, kstate{Wid: a.ID, Tags: aTags}, kstate{Marker: true}})
		p.run = func(c *s3c.Client) *s3c.Resp { return c.DeleteObject(b, key) }
	case "DELETE-version-promote":
		if err := seedA(); err != nil {
			return nil, err
		}
		w2 := l.ws.Mk(false)
		t2 := map[string]string{"gen": "w2"}
		r, err := put(key, w2, "X-Amz-Tagging", tagHdr(t2))
		if err != nil {
			return nil, err
		}
		vid := r.Header.Get("X-Amz-Version-Id")
		p.keys = append(p.keys, kexpect{key, kstate{Wid: w2.ID, Tags: t2}, kstate{Wid: a.ID, Tags: aTags}})
		p.run = func(c *s3c.Client) *s3c.Resp { return c.DeleteObjectV(b, key, vid) }
	case "DELETE-OBJECTS":
		var xmlb strings.Builder
		xmlb.WriteString(`<Delete xmlns="http://s3.amazonaws.com/doc/2006-03-01/">`)
		for i := 0; i < 3; i++ {
			k := fmt.Sprintf("multi/k%d", i)
			w := l.ws.Mk(false)
			if _, err := put(k, w); err != nil {
				return nil, err
			}
			p.keys = append(p.keys, kexpect{k, kstate{Wid: w.ID}, kstate{}})
			xmlb.WriteString("<Object><Key>" + k + "</Key></Object>")
		}
		xmlb.WriteString("</Delete>")
		body := []byte(xmlb.String())
		p.run = func(c *s3c.Client) *s3c.Resp { return c.Sub("POST", b, "", "delete=", body) }
	default:
		return nil, fmt.Errorf("unknown op %s", op)
	}
	// one unrelated operation acknowledged just before the crash
	ack := l.ws.Mk(false)
	if _, err := put("acked-before", ack); err != nil {
		return nil, err
	}
	p.keys = append(p.keys, kexpect{"acked-before", kstate{Wid: ack.ID}, kstate{Wid: ack.ID}})
	return p, nil
}

type verList struct {
	Version []struct {
		Key, VersionId string
		IsLatest       bool
	}
	DeleteMarker []struct {
		Key, VersionId string
		IsLatest       bool
	}
}

type uploadsList struct {
	Upload []struct{ Key, UploadId string }
}

func sameTags(a, b map[string]string) bool {
	if len(a) != len(b) {
		return false
	}
	for k, v := range a {
		if b[k] != v {
			return false
		}
	}
	return true
}

// stateMatches checks the tag / lock part of a state through the API.
func (l *lane) stateMatches(cl *s3c.Client, b, key string, st kstate) (bool, string) {
	r := cl.Sub("GET", b, key, "tagging=", nil)
	got := map[string]string{}
	if r.Status == 404 && r.ErrCode() == "NoSuchTagSet" {
		// no tags stored
	} else if !r.OK() {
		return false, "GetObjectTagging: " + r.String()
	} else {
		var err error
		got, err = s3c.ParseTagging(r.Body)
		if err != nil {
			return false, "GetObjectTagging body: " + err.Error()
		}
	}
	if !sameTags(got, st.Tags) {
		return false, fmt.Sprintf("tags %v, this state has %v", got, st.Tags)
	}
	if st.Hold {
		r := cl.Sub("GET", b, key, "legal-hold=", nil)
		if !r.OK() || !strings.Contains(string(r.Body), "<Status>ON</Status>") {
			return false, "legal hold not ON: " + r.String()
		}
	}
	if st.Retain != "" {
		r := cl.Sub("GET", b, key, "retention=", nil)
		if !r.OK() || !strings.Contains(string(r.Body), st.Retain) {
			return false, "retention missing: " + r.String()
		}
	}
	return true, ""
}

// judge inspects the store after the crash through a freshly started gateway.
func (l *lane) judge(id, op, point string, j int, p *prepared, cl *s3c.Client, acknowledged bool) {
	c := l.c
	b := p.bucket
	base := fmt.Sprintf("%s@%s", op, point)
	tag := "[" + l.cfg.name + "]"
	detail := map[string]any{"config": l.cfg.name, "op": op, "crash_at": point, "hit_index": j, "bucket": b}
	viol := func(what, explain string) {
		if point == "no-crash" {
			// control run without a crash: a failure here is not caused by a crash; remember it so that the
			// same (operation, failure) is not attributed to crash points of this configuration
			l.mu.Lock()
			l.controlFails[op+":"+what] = true
			l.mu.Unlock()
			c.Observe("control (no crash) already fails: " + op + ":" + what + tag + " - " + explain)
			return
		}
		l.mu.Lock()
		cf := l.controlFails[op+":"+what]
		l.mu.Unlock()
		if cf {
			return
		}
		d := map[string]any{}
		for k, v := range detail {
			d[k] = v
		}
		d["explain"] = explain
		c.Violation(base+":"+what+tag, id, d)
	}
	// listing
	lr := cl.ListV2(b)
	listed := map[string]struct {
		etag string
		size int64
	}{}
	if !lr.OK() {
		viol("list-fails-after-crash", lr.String())
	} else if res, err := s3c.ParseList(lr.Body); err == nil {
		for _, e := range res.Contents {
			listed[e.Key] = struct {
				etag string
				size int64
			}{e.ETag, e.Size}
			if strings.Contains(e.Key, ".sgwtmp") || strings.Contains(e.Key, ".tmp") {
				viol("temporary-name-listed", e.Key)
			}
		}
	}
	// a listing rolled up at "/" names no prefix under which nothing is listed (a directory left behind by the
	// interrupted request would show up here and nowhere else)
	if dr := cl.Do(&s3c.Req{Method: "GET", Path: s3c.BucketPath(b), Query: s3c.Q("list-type", "2", "delimiter", "/")}); dr.OK() {
		if res, err := s3c.ParseList(dr.Body); err == nil {
			for _, cpe := range res.CommonPrefixes {
				cp := cpe.Prefix
				below := 0
				for k := range listed {
					if strings.HasPrefix(k, cp) {
						below++
					}
				}
				if below == 0 {
					viol("leftover-directory-listed-as-prefix", fmt.Sprintf("ListObjectsV2 delimiter=/ reports the common prefix %q, the listing without delimiter has no key below it", cp))
				}
			}
		}
	}
	known := map[string]bool{}
	for _, k := range p.keys {
		known[k.Key] = true
	}
	for k := range listed {
		if !known[k] && k != "src" && !strings.HasSuffix(k, "/") {
			viol("unexpected-key-listed", k)
		}
	}
	for _, ke := range p.keys {
		if p.part != nil && ke.Key == p.part.key {
			continue
		}
		if p.isDirKey && strings.HasSuffix(ke.Key, "/") {
			// directory object: absent, or present with its marker attributes
			r := cl.HeadObject(b, ke.Key)
			switch {
			case r.Status == 404:
			case r.Status == 200:
				if r.Header.Get("X-Amz-Meta-Wid") != "dir" || !strings.Contains(r.Header.Get("Content-Type"), "x-directory") || strings.Trim(r.Header.Get("Etag"), `"`) == "" {
					viol("dir-object-half-created", fmt.Sprintf("meta=%q ctype=%q etag=%q", r.Header.Get("X-Amz-Meta-Wid"), r.Header.Get("Content-Type"), r.Header.Get("Etag")))
				}
			default:
				viol("dir-object-unreadable", r.String())
			}
			if acknowledged && r.Status != 200 {
				viol("acknowledged-op-lost", "directory object acknowledged but not present")
			}
			continue
		}
		g := cl.GetObject(b, ke.Key)
		o := l.ws.Judge(g, false)
		if o.Refused {
			viol("key-unreadable", ke.Key+": "+g.String())
			continue
		}
		if o.Torn != "" {
			viol("inconsistent-object", ke.Key+": "+o.Torn)
			continue
		}
		h := cl.HeadObject(b, ke.Key)
		ho := l.ws.Judge(h, true)
		if ho.Wid != o.Wid {
			viol("head-disagrees-with-get", fmt.Sprintf("%s: GET says write %d, HEAD says %d (%s)", ke.Key, o.Wid, ho.Wid, ho.Torn))
		}
		le, isListed := listed[ke.Key]
		if o.Wid > 0 {
			w := l.ws.ByID(o.Wid)
			if !isListed {
				viol("readable-key-not-listed", ke.Key)
			} else if lw := l.ws.ByETag(le.etag); lw == nil || lw.ID != o.Wid || le.size != int64(len(w.Body)) {
				viol("listing-disagrees-with-get", fmt.Sprintf("%s: listed etag %s size %d, GET write %d", ke.Key, le.etag, le.size, o.Wid))
			}
			ar := cl.Do(&s3c.Req{Method: "GET", Path: s3c.ObjPath(b, ke.Key), Query: "attributes=", Header: s3c.H{{"X-Amz-Object-Attributes", "ETag,ObjectSize"}}})
			if ar.OK() {
				var at struct {
					ETag       string
					ObjectSize int64
				}
				xml.Unmarshal(ar.Body, &at)
				if aw := l.ws.ByETag(at.ETag); aw == nil || aw.ID != o.Wid || at.ObjectSize != int64(len(w.Body)) {
					viol("attributes-disagree-with-get", fmt.Sprintf("%s: attributes etag %s size %d, GET write %d", ke.Key, at.ETag, at.ObjectSize, o.Wid))
				}
			} else {
				viol("attributes-fail", ke.Key+": "+ar.String())
			}
		} else if isListed {
			viol("absent-key-listed", ke.Key)
		}
		// old or new?
		var st *kstate
		switch {
		case o.Wid == ke.Old.Wid && o.Wid == ke.New.Wid:
			st = &ke.Old
		case o.Wid == ke.Old.Wid:
			st = &ke.Old
			if acknowledged {
				viol("acknowledged-op-lost", ke.Key+" still holds the previous state")
			}
		case o.Wid == ke.New.Wid:
			st = &ke.New
		default:
			viol("neither-old-nor-new", fmt.Sprintf("%s holds write %d; previous state is write %d, new state is write %d (0 = absent)", ke.Key, o.Wid, ke.Old.Wid, ke.New.Wid))
			continue
		}
		if o.Wid > 0 {
			ok, why := l.stateMatches(cl, b, ke.Key, *st)
			if !ok {
				which := "old"
				if st == &ke.New && ke.New.Wid != ke.Old.Wid {
					which = "new"
				}
				viol(which+"-data-without-its-settings", ke.Key+": data of the "+which+" state but "+why)
			}
		}
		if o.Wid == 0 && !ke.Old.Marker && !ke.New.Marker && ke.Old.Wid != 0 && ke.New.Wid != 0 {
			viol("object-vanished", ke.Key)
		}
	}
	// version ids acknowledged before the crash stay readable
	for _, a := range p.acked {
		if a.Vid == "" {
			continue
		}
		r := cl.GetObjectV(b, a.Key, a.Vid)
		o := l.ws.Judge(r, false)
		if o.Wid != a.Wid {
			if op == "DELETE-version-promote" {
				// version a is being promoted: it may be current now (same id) - that read path is the same GET ?versionId
			}
			viol("acknowledged-version-unreadable", fmt.Sprintf("%s?versionId=%s: %s %s (want write %d)", a.Key, a.Vid, r, o.Torn, a.Wid))
		}
	}
	// versions: the listing shows only versions the model knows - ids acknowledged before the crash, or whole writes
	// (the interrupted one included). Temporary data must never be listed or served as a version.
	if p.versioned {
		if vr := cl.Do(&s3c.Req{Method: "GET", Path: s3c.BucketPath(b), Query: "versions="}); vr.OK() {
			var vl verList
			xml.Unmarshal(vr.Body, &vl)
			ackedVid := map[string]bool{}
			for _, a := range p.acked {
				ackedVid[a.Key+"|"+a.Vid] = true
			}
			for _, v := range vl.Version {
				if ackedVid[v.Key+"|"+v.VersionId] || strings.HasSuffix(v.Key, "/") {
					continue
				}
				r := cl.GetObjectV(b, v.Key, v.VersionId)
				if o := l.ws.Judge(r, false); o.Wid <= 0 {
					viol("unknown-version-listed-after-crash", fmt.Sprintf("%s?versionId=%s is listed; GET answers %s %s", v.Key, v.VersionId, r, o.Torn))
				}
			}
		}
	}
	// uploads: only uploads the model knows
	ur := cl.Do(&s3c.Req{Method: "GET", Path: s3c.BucketPath(b), Query: "uploads="})
	if ur.OK() {
		var ul uploadsList
		xml.Unmarshal(ur.Body, &ul)
		for _, u := range ul.Upload {
			if _, ok := p.uploads[u.UploadId]; !ok {
				viol("unknown-upload-listed", u.Key+" "+u.UploadId)
			}
		}
		if strings.HasPrefix(op, "MPU-complete") {
			// if the object is the new state the upload must be gone
			for _, ke := range p.keys {
				if ke.New.Wid != ke.Old.Wid && ke.New.Wid > 0 {
					g := l.ws.Judge(cl.GetObject(b, ke.Key), false)
					if g.Wid == ke.New.Wid && len(ul.Upload) > 0 {
						viol("completed-upload-still-listed", fmt.Sprintf("object holds the completed data but upload %s is still listed", ul.Upload[0].UploadId))
					}
				}
			}
		}
	} else {
		viol("list-uploads-fails", ur.String())
	}
	// multipart completion that did not take effect: the parts acknowledged before the crash must still be
	// there and the completion must be repeatable
	if me := p.mpu; me != nil {
		if g := l.ws.Judge(cl.GetObject(b, me.key), false); g.Wid != me.newWid {
			lp := cl.Do(&s3c.Req{Method: "GET", Path: s3c.ObjPath(b, me.key), Query: s3c.Q("uploadId", me.id)})
			if !lp.OK() {
				viol("acknowledged-parts-lost", "ListParts of the interrupted upload: "+lp.String())
			} else {
				var pl struct {
					Part []struct {
						PartNumber int
						ETag       string
					}
				}
				xml.Unmarshal(lp.Body, &pl)
				have := map[int]string{}
				for _, x := range pl.Part {
					have[x.PartNumber] = strings.Trim(x.ETag, `"`)
				}
				for _, want := range me.parts {
					if have[want.N] != want.ETag {
						viol("acknowledged-parts-lost", fmt.Sprintf("part %d acknowledged with ETag %s before the crash, listed now: %q", want.N, want.ETag, have[want.N]))
					}
				}
			}
			cr := cl.CompleteMPU(b, me.key, me.id, me.parts)
			if !cr.OK() {
				viol("interrupted-completion-not-repeatable", "retried CompleteMultipartUpload: "+cr.String())
			} else if g2 := l.ws.Judge(cl.GetObject(b, me.key), false); g2.Wid != me.newWid {
				viol("interrupted-completion-not-repeatable", fmt.Sprintf("retried completion acknowledged but the key holds write %d %s", g2.Wid, g2.Torn))
			}
		}
	}
	// part operation: part old or new, upload still completes
	if pe := p.part; pe != nil {
		lp := cl.Do(&s3c.Req{Method: "GET", Path: s3c.ObjPath(b, pe.key), Query: s3c.Q("uploadId", pe.id)})
		if !lp.OK() {
			viol("list-parts-fails", lp.String())
		} else {
			var pl struct {
				Part []struct {
					PartNumber int
					ETag       string
					Size       int64
				}
			}
			xml.Unmarshal(lp.Body, &pl)
			got := ""
			var gotSize int64 = -1
			for _, x := range pl.Part {
				if x.PartNumber == pe.n {
					got, gotSize = strings.Trim(x.ETag, `"`), x.Size
				}
			}
			var body []byte
			switch {
			case got == pe.oldETag && got == "":
			case got == pe.oldETag:
				body = pe.oldBody
			case got == pe.newETag:
				body = pe.newBody
			default:
				viol("part-neither-old-nor-new", fmt.Sprintf("part %d has etag %q size %d; old %q new %q", pe.n, got, gotSize, pe.oldETag, pe.newETag))
			}
			if body != nil && gotSize != int64(len(body)) {
				viol("part-size-etag-mismatch", fmt.Sprintf("part etag %s but size %d, want %d", got, gotSize, len(body)))
			}
			if acknowledged && got != pe.newETag {
				viol("acknowledged-op-lost", "part upload acknowledged but not listed")
			}
			parts := []s3c.Part{pe.otherPart}
			want := append([]byte{}, pe.otherBody...)
			if body != nil {
				parts = append(parts, s3c.Part{N: pe.n, ETag: got})
				want = append(want, body...)
			}
			cr := cl.CompleteMPU(b, pe.key, pe.id, parts)
			if !cr.OK() {
				viol("upload-unusable-after-crash", "complete with the listed parts: "+cr.String())
			} else {
				g := cl.GetObject(b, pe.key)
				if !g.OK() || string(g.Body) != string(want) {
					viol("completed-object-wrong-after-crash", fmt.Sprintf("status %s len %d want %d", g, len(g.Body), len(want)))
				}
			}
		}
	}
	// later operations still work
	for _, ke := range p.keys {
		if ke.Old.Wid == ke.New.Wid || strings.HasSuffix(ke.Key, "/") || p.lock {
			continue
		}
		// versioned bucket: an attribute change of the current version acknowledged after the restart must be what its
		// version id shows once a later upload has archived it (leftovers of the interrupted operation in the version
		// store are no substitute for the object as it is now)
		archVid, archWid := "", 0
		if p.versioned {
			// (only on a current object that is whole: an inconsistent one was reported above)
			if h := cl.GetObject(b, ke.Key); h.OK() {
				if o := l.ws.Judge(h, false); o.Wid > 0 && o.Torn == "" {
					if vid := h.Header.Get("X-Amz-Version-Id"); vid != "" && vid != "null" {
						tb := s3c.TaggingXML(map[string]string{"followup": "after-restart"})
						if tr := cl.Sub("PUT", b, ke.Key, "tagging=", tb, "Content-MD5", s3c.MD5B64(tb)); tr.OK() {
							archVid, archWid = vid, o.Wid
						}
					}
				}
			}
		}
		cw := l.ws.Mk(false)
		pr := cl.PutObject(b, ke.Key, cw.Body, cw.Hdr()...)
		if !pr.OK() {
			viol("later-put-fails", ke.Key+": "+pr.String())
			continue
		}
		if archVid != "" {
			gv := cl.GetObjectV(b, ke.Key, archVid)
			if o := l.ws.Judge(gv, false); o.Wid != archWid || archWid <= 0 {
				viol("version-archived-by-later-put-unreadable", fmt.Sprintf("%s?versionId=%s: %s %s (want write %d)", ke.Key, archVid, gv, o.Torn, archWid))
			} else if nv := pr.Header.Get("X-Amz-Version-Id"); nv != "" && nv != archVid {
				// (the gateway serves tags of the current version only: the newest version is deleted by id, which
				// re-exposes the archived one, and put again afterwards)
				if dv := cl.DeleteObjectV(b, ke.Key, nv); dv.Status == 204 || dv.Status == 200 {
					g2 := cl.GetObject(b, ke.Key)
					tg := cl.Sub("GET", b, ke.Key, "tagging=", nil)
					tm, _ := s3c.ParseTagging(tg.Body)
					if o2 := l.ws.Judge(g2, false); o2.Wid != archWid {
						viol("deleting-the-later-put-does-not-reexpose-the-version-before-it", fmt.Sprintf("%s: %s holds write %d %s (want write %d)", ke.Key, g2, o2.Wid, o2.Torn, archWid))
					} else if !tg.OK() || tm["followup"] != "after-restart" || len(tm) != 1 {
						viol("version-archived-by-later-put-without-its-acknowledged-tags", fmt.Sprintf("%s: tags put after the restart {followup=after-restart}; once archived by the later put and re-exposed the version shows %s %v", ke.Key, tg, tm))
					}
					if pr = cl.PutObject(b, ke.Key, cw.Body, cw.Hdr()...); !pr.OK() {
						viol("later-put-fails", ke.Key+": "+pr.String())
						continue
					}
				} else {
					viol("later-delete-fails", ke.Key+"?versionId="+nv+": "+dv.String())
				}
			}
		}
		lg := cl.GetObject(b, ke.Key)
		if o := l.ws.Judge(lg, false); o.Wid != cw.ID {
			viol("later-put-not-readable", fmt.Sprintf("%s: wrote %d, read %d %s", ke.Key, cw.ID, o.Wid, o.Torn))
		} else {
			// the later upload carried an id, a content type and nothing else: whatever else the key shows now was left
			// behind by the interrupted request (or by the state before it) and has become visible through the API
			var foreign []string
			for h := range lg.Header {
				if strings.HasPrefix(h, "X-Amz-Meta-") && h != "X-Amz-Meta-Wid" {
					foreign = append(foreign, h+"="+lg.Header.Get(h))
				}
			}
			for _, h := range []string{"Cache-Control", "Content-Disposition", "Content-Encoding", "Content-Language", "Expires", "X-Amz-Object-Lock-Legal-Hold", "X-Amz-Object-Lock-Mode"} {
				if v := lg.Header.Get(h); v != "" {
					foreign = append(foreign, h+"="+v)
				}
			}
			if tg := cl.Sub("GET", b, ke.Key, "tagging=", nil); tg.OK() {
				if tm, _ := s3c.ParseTagging(tg.Body); len(tm) > 0 {
					foreign = append(foreign, fmt.Sprintf("tags=%v", tm))
				}
			}
			if len(foreign) > 0 {
				sort.Strings(foreign)
				viol("later-put-shows-attributes-it-did-not-carry", fmt.Sprintf("%s: the upload after the restart carried X-Amz-Meta-Wid and Content-Type only; the key now also shows %v", ke.Key, foreign))
			}
		}
		if dr := cl.DeleteObject(b, ke.Key); dr.Status != 204 && dr.Status != 200 {
			viol("later-delete-fails", ke.Key+": "+dr.String())
		}
	}
	if p.lock {
		return
	}
	// empty the bucket and delete it
	if r := cl.Do(&s3c.Req{Method: "GET", Path: s3c.BucketPath(b), Query: "uploads="}); r.OK() {
		var ul uploadsList
		xml.Unmarshal(r.Body, &ul)
		for _, u := range ul.Upload {
			cl.AbortMPU(b, u.Key, u.UploadId)
		}
	}
	if p.versioned {
		for round := 0; round < 3; round++ {
			vr := cl.Do(&s3c.Req{Method: "GET", Path: s3c.BucketPath(b), Query: "versions="})
			if !vr.OK() {
				viol("list-versions-fails", vr.String())
				break
			}
			var vl verList
			xml.Unmarshal(vr.Body, &vl)
			if len(vl.Version)+len(vl.DeleteMarker) == 0 {
				break
			}
			for _, v := range vl.Version {
				cl.DeleteObjectV(b, v.Key, v.VersionId)
			}
			for _, v := range vl.DeleteMarker {
				cl.DeleteObjectV(b, v.Key, v.VersionId)
			}
		}
	} else if r := cl.ListV2(b); r.OK() {
		if res, err := s3c.ParseList(r.Body); err == nil {
			for _, e := range res.Contents {
				cl.DeleteObject(b, e.Key)
			}
		}
	}
	if dr := cl.DeleteBucket(b); dr.Status != 204 && dr.Status != 200 {
		left := ""
		if r := cl.ListV2(b); r.OK() {
			left = string(r.Body)
			if len(left) > 300 {
				left = left[:300]
			}
		}
		viol("bucket-undeletable-after-crash", dr.String()+" listing: "+left)
	}
}

// traceOp runs op to completion on a gated gateway and returns its hook hits.
func (l *lane) traceOp(op string) ([]string, error) {
	g, err := gw.Start(l.gwCfg(true))
	if err != nil {
		return nil, err
	}
	defer g.Stop()
	cl := s3c.New(g.Addr, gw.RootAK, gw.RootSK)
	p, err := l.prepare(op, cl)
	if err != nil {
		return nil, err
	}
	pol, seen := gate.TraceFirst()
	l.ctl.SetPolicy(pol)
	r := p.run(cl)
	l.ctl.SetPolicy(nil)
	if r.Err != nil || r.Status >= 300 {
		return nil, fmt.Errorf("trace run of %s: %s %s", op, r, r.Body)
	}
	// the uncrashed run must satisfy the oracle too (acknowledged)
	l.judge(fmt.Sprintf("F/%s/%s/trace", l.cfg.name, op), op, "no-crash", 0, p, cl, true)
	return seen(), nil
}

func (l *lane) crashCase(id, op string, j int, wantName string) {
	c := l.c
	g, err := gw.Start(l.gwCfg(true))
	if err != nil {
		c.Inconclusive("gateway start: " + err.Error())
		return
	}
	cl := s3c.New(g.Addr, gw.RootAK, gw.RootSK)
	cl.Log = g
	p, err := l.prepare(op, cl)
	if err != nil {
		g.Stop()
		c.Inconclusive("prepare: " + err.Error())
		return
	}
	pol, _ := gate.HoldNth(j)
	l.ctl.SetPolicy(pol)
	ch := make(chan *s3c.Resp, 1)
	go func() { ch <- p.run(cl) }()
	h := l.ctl.WaitHeld(10 * time.Second)
	if h == nil {
		l.ctl.SetPolicy(nil)
		g.Kill()
		<-ch
		c.Inconclusive(fmt.Sprintf("%s never reached hit %d", op, j))
		return
	}
	name := h.Name
	g.Kill() // SIGKILL while the operation sits exactly at this step
	l.ctl.SetPolicy(nil)
	h.Release()
	resp := <-ch
	if name != wantName {
		c.Inconclusive(fmt.Sprintf("%s hit %d is %s, trace said %s", op, j, name, wantName))
		return
	}
	if g.ExitSignal() != syscall.SIGKILL {
		c.Inconclusive("gateway did not die by SIGKILL")
		return
	}
	acknowledged := resp.Err == nil && resp.Status >= 200 && resp.Status < 300
	c.Eval(1)
	c.Add("crashes_confirmed", 1)
	l.mu.Lock()
	l.pts[name] = true
	l.mu.Unlock()
	// restart: a new process on the same storage, no hooks active
	g2, err := gw.Start(l.gwCfg(false))
	if err != nil {
		c.Violation(fmt.Sprintf("%s@%s:gateway-does-not-restart[%s]", op, name, l.cfg.name), id, map[string]any{"error": err.Error()})
		return
	}
	defer g2.Stop()
	cl2 := s3c.New(g2.Addr, gw.RootAK, gw.RootSK)
	cl2.Log = g2
	l.judge(id, op, name, j, p, cl2, acknowledged)
	if !g2.Alive() {
		cr := g2.ScrapeCrash()
		msg := "exited"
		if cr != nil {
			msg = cr.Message + " " + cr.TopFrame
		}
		c.Violation(fmt.Sprintf("%s@%s:gateway-dies-after-restart[%s]", op, name, l.cfg.name), id, map[string]any{"crash": msg})
	}
	c.Distinct(fmt.Sprintf("%s|%s|%d:%s", l.cfg.name, op, j, name))
	if j == 3 {
		c.Sample(map[string]any{"config": l.cfg.name, "op": op, "crash_at_hit": j, "point": name, "client_saw": resp.String()})
	}
}

// timedKills kills the gateway at PRNG-chosen instants (not at hook points) while an operation with a large body
// is in flight. The instant is drawn from the duration an uncrashed run of the same operation took; which step it
// lands in is not controlled, so this lane only adds reach between the instrumented steps.
func timedKills(c *ev.Ctx, cf cfg, ops []string, n int, seed int64) {
	st, err := gw.NewStore(fx.UniqueDir("c11t-" + cf.name))
	if err != nil {
		c.Inconclusive(err.Error())
		return
	}
	ctl, err := gate.New(gw.Scratch())
	if err != nil {
		c.Inconclusive(err.Error())
		return
	}
	defer ctl.Close()
	l := &lane{c: c, cfg: cf, st: st, ctl: ctl, ws: wid.NewSet(), pts: map[string]bool{}, controlFails: map[string]bool{}, bigSize: 6 << 20}
	r := rand.New(rand.NewSource(seed))
	dur := map[string]time.Duration{}
	for i := 0; i < n; i++ {
		op := ops[r.Intn(len(ops))]
		id := fmt.Sprintf("T/%s/%s/%d", cf.name, op, i)
		frac := r.Float64()
		if !c.Want(id) {
			continue
		}
		g, err := gw.Start(l.gwCfg(false))
		if err != nil {
			c.Inconclusive("gateway start: " + err.Error())
			continue
		}
		cl := s3c.New(g.Addr, gw.RootAK, gw.RootSK)
		p, err := l.prepare(op, cl)
		if err != nil {
			g.Stop()
			c.Inconclusive("prepare: " + err.Error())
			continue
		}
		d, known := dur[op]
		if !known {
			// control run: measure and judge without a kill
			t0 := time.Now()
			resp := p.run(cl)
			dur[op] = time.Since(t0)
			if resp.Err == nil && resp.Status < 300 {
				l.judge(id, op, "no-crash", 0, p, cl, true)
			}
			g.Stop()
			continue
		}
		ch := make(chan *s3c.Resp, 1)
		go func() { ch <- p.run(cl) }()
		time.Sleep(time.Duration(frac * float64(d)))
		g.Kill()
		resp := <-ch
		acknowledged := resp.Err == nil && resp.Status >= 200 && resp.Status < 300
		c.Eval(1)
		c.Add("timed_kills", 1)
		g2, err := gw.Start(l.gwCfg(false))
		if err != nil {
			c.Violation(fmt.Sprintf("%s@timed-kill:gateway-does-not-restart[%s]", op, cf.name), id, map[string]any{"error": err.Error()})
			continue
		}
		cl2 := s3c.New(g2.Addr, gw.RootAK, gw.RootSK)
		l.judge(id, op, "timed-kill", 0, p, cl2, acknowledged)
		g2.Stop()
		c.Distinct(fmt.Sprintf("T|%s|%s|acked=%v|decile=%d", cf.name, op, acknowledged, int(frac*10)))
	}
}

func runLane(c *ev.Ctx, cf cfg, ops []string) {
	st, err := gw.NewStore(fx.UniqueDir("c11-" + cf.name))
	if err != nil {
		c.Inconclusive(err.Error())
		return
	}
	ctl, err := gate.New(gw.Scratch())
	if err != nil {
		c.Inconclusive(err.Error())
		return
	}
	defer ctl.Close()
	l := &lane{c: c, cfg: cf, st: st, ctl: ctl, ws: wid.NewSet(), pts: map[string]bool{}, controlFails: map[string]bool{}}
	for _, op := range ops {
		if !c.Want(fmt.Sprintf("F/%s/%s", cf.name, op)) {
			continue
		}
		l.traceOp(op) // warm-up (first use of the version directory takes a different temp-file path)
		hits, err := l.traceOp(op)
		if err != nil {
			c.Inconclusive("trace: " + err.Error())
			continue
		}
		c.Add("trace_runs", 1)
		c.Add("crash_points_enumerated", len(hits))
		for j, name := range hits {
			id := fmt.Sprintf("F/%s/%s/%d", cf.name, op, j+1)
			if !c.Want(id) {
				continue
			}
			l.crashCase(id, op, j+1, name)
		}
	}
	l.mu.Lock()
	c.Add("hook_points_reached_"+cf.name, len(l.pts))
	l.mu.Unlock()
}

func Run(c *ev.Ctx) int {
	c.Assume("process death (SIGKILL) at instrumented filesystem steps; power loss / lost page cache is out of reach (the code never fsyncs)")
	c.Assume("the operation is the only request in flight when the process dies")
	// named+xattr also in the quick tier: under the sidecar store several anomalies are known findings, so named
	// temp files need a configuration in which every anomaly still counts
	cfgs := []cfg{{"otmp+xattr", false, false}, {"named+sidecar", true, true}, {"named+xattr", true, false}}
	ops := []string{}
	for _, o := range opKinds {
		if c.Thorough() || quickOps[o] {
			ops = append(ops, o)
		}
	}
	if c.Thorough() {
		cfgs = append(cfgs, cfg{"otmp+sidecar", false, true})
	}
	var wg sync.WaitGroup
	for _, cf := range cfgs {
		// split each configuration's operations over two workers
		half := (len(ops) + 1) / 2
		for _, part := range [][]string{ops[:half], ops[half:]} {
			wg.Add(1)
			go func(cf cfg, part []string) {
				defer wg.Done()
				runLane(c, cf, part)
			}(cf, part)
		}
	}
	wg.Wait()
	if c.Thorough() {
		rt := c.Rng("timed")
		for _, cf := range cfgs {
			wg.Add(1)
			go func(cf cfg, seed int64) {
				defer wg.Done()
				timedKills(c, cf, []string{"PUT-overwrite", "PUT-overwrite-versioned", "COPY-onto", "MPU-complete-overwrite", "UPLOAD-PART-overwrite", "PUT-new"}, 400, seed)
			}(cf, rt.Int63())
		}
		wg.Wait()
	}
	c.Set("exhaustive", true)
	c.Set("exhaustive_over", "every hook hit of every listed operation under every listed configuration (single crash, single request in flight)")
	return c.Finish("fault enumeration: operation kind x storage configuration x index j of the operation's hook-hit trace; gateway killed with SIGKILL while held at hit j; distinct = (configuration, operation, j:point) with the kill confirmed and the post-restart oracle executed by a new process", 40)
}
