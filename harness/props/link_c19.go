//go:build !solo || solo_c19

package props

import _ "verif/harness/props/c19"
