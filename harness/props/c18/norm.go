package c18

import (
	"bytes"
	"crypto/sha256"
	"encoding/hex"
	"encoding/json"
	"encoding/xml"
	"fmt"
	"sort"
	"strings"

	"verif/harness/internal/s3c"
)

// ---- canonical views of a response ------------------------------------------------
//
// A view holds everything of a response the property speaks about, with the
// parts that legitimately differ between two gateways normalised away: dates,
// request ids, upload ids (replaced by the slot name of the program), version
// ids, owner display names, the Server header, the address of the gateway.

type entry struct{ path, val string }

type view struct {
	status int
	code   string
	msg    string
	hdr    map[string]string
	kind   string // "xml" | "json" | "raw" | "empty"
	xml    []entry
	json   string
	raw    []byte
}

// header names never compared
var skipHdr = map[string]bool{
	"date": true, "server": true, "connection": true, "keep-alive": true,
	"x-amz-request-id": true, "x-amz-id-2": true,
}

var timeElems = map[string]bool{"LastModified": true, "CreationDate": true, "Initiated": true}
var dropElems = map[string]bool{"RequestId": true, "HostId": true, "DisplayName": true, "Resource": true}
var uploadElems = map[string]bool{"UploadId": true, "UploadIdMarker": true, "NextUploadIdMarker": true}

func kebab(s string) string {
	var sb strings.Builder
	for i := 0; i < len(s); i++ {
		b := s[i]
		if b >= 'A' && b <= 'Z' {
			if i > 0 && s[i-1] >= 'a' && s[i-1] <= 'z' {
				sb.WriteByte('-')
			}
			b += 'a' - 'A'
		}
		sb.WriteByte(b)
	}
	return sb.String()
}

func kebabPath(p string) string {
	parts := strings.Split(p, "/")
	for i := range parts {
		parts[i] = kebab(parts[i])
	}
	return strings.Join(parts, ".")
}

// xmlEntries renders a document as the ordered list of (element path below the root, text).
// Empty elements are treated like absent ones (an SDK parses both to the zero value).
func xmlEntries(b []byte, s *side) ([]entry, bool) {
	d := xml.NewDecoder(bytes.NewReader(b))
	var path []string
	var out []entry
	root := ""
	for {
		t, err := d.Token()
		if err != nil {
			if root == "" || len(path) != 0 {
				return nil, false
			}
			break
		}
		switch x := t.(type) {
		case xml.StartElement:
			if root == "" {
				root = x.Name.Local
				out = append(out, entry{"(root)", root})
			}
			path = append(path, x.Name.Local)
			for _, a := range x.Attr {
				if a.Name.Space == "xmlns" || a.Name.Local == "xmlns" {
					continue
				}
				out = append(out, entry{strings.Join(path[1:], "/") + "@" + a.Name.Local, a.Value})
			}
		case xml.EndElement:
			if len(path) == 0 {
				return nil, false
			}
			path = path[:len(path)-1]
		case xml.CharData:
			v := strings.TrimSpace(string(x))
			if v == "" || len(path) < 2 {
				continue
			}
			name := path[len(path)-1]
			switch {
			case dropElems[name]:
				continue
			case timeElems[name]:
				v = "<time>"
			case uploadElems[name]:
				v = s.slotOf(v)
			case strings.HasSuffix(name, "VersionId") || name == "VersionIdMarker" || name == "NextVersionIdMarker":
				if v != "null" {
					v = "<version>"
				}
			default:
				v = s.normAddr(v)
			}
			out = append(out, entry{strings.Join(path[1:], "/"), v})
		}
	}
	if root == "Tagging" {
		out = tagPairs(out)
	}
	return out, true
}

// tagPairs: a tag set is a set of (key, value) pairs; its rendering order carries no meaning.
func tagPairs(es []entry) []entry {
	var rest []entry
	var pairs []string
	key, haveKey := "", false
	for _, e := range es {
		switch e.path {
		case "TagSet/Tag/Key":
			if haveKey {
				pairs = append(pairs, fmt.Sprintf("%q=%q", key, ""))
			}
			key, haveKey = e.val, true
		case "TagSet/Tag/Value":
			pairs = append(pairs, fmt.Sprintf("%q=%q", key, e.val))
			haveKey = false
		default:
			rest = append(rest, e)
		}
	}
	if haveKey {
		pairs = append(pairs, fmt.Sprintf("%q=%q", key, ""))
	}
	sort.Strings(pairs)
	for _, p := range pairs {
		rest = append(rest, entry{"TagSet/Tag", p})
	}
	return rest
}

func canonJSON(b []byte) string {
	var v any
	if json.Unmarshal(b, &v) != nil {
		return "unparsable:" + string(b)
	}
	o, _ := json.Marshal(v)
	return string(o)
}

func mkView(r *s3c.Resp, s *side, bodyKind string) *view {
	v := &view{status: r.Status, hdr: map[string]string{}}
	for k, vals := range r.Header {
		n := strings.ToLower(k)
		if skipHdr[n] {
			continue
		}
		val := strings.Join(vals, ",")
		switch n {
		case "last-modified":
			val = "<time>"
		case "x-amz-version-id":
			if val != "null" {
				val = "<version>"
			}
		case "location":
			val = s.normAddr(val)
		case "x-amz-abort-date", "x-amz-expiration":
			val = "<time>"
		}
		v.hdr[n] = val
	}
	body := r.Body
	switch {
	case len(body) == 0:
		v.kind = "empty"
	case r.Status >= 300 || bodyKind == "xml" || (bodyKind == "auto" && bytes.HasPrefix(bytes.TrimSpace(body), []byte("<"))):
		if es, ok := xmlEntries(body, s); ok {
			v.kind = "xml"
			v.xml = es
			if len(es) > 0 && es[0].val == "Error" {
				for _, e := range es {
					switch e.path {
					case "Code":
						v.code = e.val
					case "Message":
						v.msg = e.val
					}
				}
			}
		} else {
			v.kind = "raw"
			v.raw = body
		}
	case bodyKind == "json":
		v.kind = "json"
		v.json = canonJSON(body)
	default:
		v.kind = "raw"
		v.raw = body
	}
	if v.kind == "xml" || v.kind == "json" {
		// the length of a rendered document depends on ids and dates
		delete(v.hdr, "content-length")
	}
	return v
}

type diff struct {
	field string // signature part
	p, d  string
}

func short(s string) string {
	if len(s) > 300 {
		return s[:300] + fmt.Sprintf("...(%d bytes)", len(s))
	}
	return s
}

func rawDesc(b []byte) string {
	h := sha256.Sum256(b)
	pre := b
	if len(pre) > 48 {
		pre = pre[:48]
	}
	return fmt.Sprintf("len=%d sha256=%s head=%q", len(b), hex.EncodeToString(h[:6]), pre)
}

// compareViews lists the client-visible differences between the proxy's answer and the reference answer.
// A differing status / error code is reported alone (everything else follows from it).
func compareViews(p, d *view) (out []diff, msgDiffers bool) {
	if p.status != d.status || p.code != d.code {
		f := "status"
		if p.status >= 300 && d.status >= 300 {
			f = "error-code"
		}
		return []diff{{f, fmt.Sprintf("%d %s", p.status, p.code), fmt.Sprintf("%d %s", d.status, d.code)}}, false
	}
	if p.status >= 300 {
		// same status, same code: the message text is informative only
		return nil, p.msg != d.msg
	}
	names := map[string]bool{}
	for k := range p.hdr {
		names[k] = true
	}
	for k := range d.hdr {
		names[k] = true
	}
	var ns []string
	for k := range names {
		ns = append(ns, k)
	}
	sort.Strings(ns)
	metaDone, csumDone := false, false
	for _, n := range ns {
		if p.hdr[n] == d.hdr[n] {
			continue
		}
		f := n
		if strings.HasPrefix(n, "x-amz-meta-") {
			if metaDone {
				continue
			}
			metaDone = true
			f = "x-amz-meta"
		}
		if strings.HasPrefix(n, "x-amz-checksum-") {
			// one root cause whatever the algorithm: checksum headers added or dropped
			if csumDone {
				continue
			}
			csumDone = true
			f = "x-amz-checksum"
		}
		_, inP := p.hdr[n]
		_, inD := d.hdr[n]
		pv, dv := p.hdr[n], d.hdr[n]
		if !inP {
			pv = "(absent)"
		}
		if !inD {
			dv = "(absent)"
		}
		out = append(out, diff{f, n + ": " + pv, n + ": " + dv})
	}
	if p.kind != d.kind {
		out = append(out, diff{"body-kind", p.kind + " " + short(string(p.raw)), d.kind + " " + short(string(d.raw))})
		return out, false
	}
	switch p.kind {
	case "raw":
		if !bytes.Equal(p.raw, d.raw) {
			out = append(out, diff{"body", rawDesc(p.raw), rawDesc(d.raw)})
		}
	case "json":
		if p.json != d.json {
			out = append(out, diff{"body", short(p.json), short(d.json)})
		}
	case "xml":
		out = append(out, diffEntries(p.xml, d.xml)...)
	}
	return out, false
}

// diffEntries compares two documents path by path: the multiset of values below a path must agree,
// and their order too. One difference per top-level child of the root is reported.
func diffEntries(p, d []entry) []diff {
	group := func(es []entry) (map[string][]string, []string) {
		m := map[string][]string{}
		var order []string
		for _, e := range es {
			if _, ok := m[e.path]; !ok {
				order = append(order, e.path)
			}
			m[e.path] = append(m[e.path], e.val)
		}
		return m, order
	}
	pm, po := group(p)
	dm, do := group(d)
	order := append([]string{}, do...)
	for _, k := range po {
		if _, ok := dm[k]; !ok {
			order = append(order, k)
		}
	}
	var out []diff
	topDone := map[string]bool{}
	for _, lim := range []string{"MaxKeys", "MaxUploads", "MaxParts", "MaxBuckets"} {
		// the echoed limit differs: the request was translated with another limit, everything else follows
		a, b := pm[lim], dm[lim]
		if strings.Join(a, "\x00") != strings.Join(b, "\x00") {
			return []diff{{kebabPath(lim), short(fmt.Sprintf("%q", a)), short(fmt.Sprintf("%q", b))}}
		}
	}
	for _, k := range order {
		a, b := pm[k], dm[k]
		if strings.Join(a, "\x00") == strings.Join(b, "\x00") && len(a) == len(b) {
			continue
		}
		top := strings.SplitN(strings.SplitN(k, "@", 2)[0], "/", 2)[0]
		if topDone[top] {
			continue
		}
		topDone[top] = true
		sa, sb := append([]string{}, a...), append([]string{}, b...)
		sort.Strings(sa)
		sort.Strings(sb)
		f := kebabPath(k)
		if strings.Join(sa, "\x00") == strings.Join(sb, "\x00") && len(sa) == len(sb) {
			f += ":order"
		}
		out = append(out, diff{f, short(fmt.Sprintf("%q", a)), short(fmt.Sprintf("%q", b))})
	}
	return out
}
