package c18

import (
	"bytes"
	"fmt"
	"sync"
	"time"

	"verif/harness/internal/ev"
	"verif/harness/internal/s3c"
)

// Slow-transfer lane: transparency does not depend on how long a transfer takes. A download whose reader stops for a
// while in the middle of a large body, and an upload / part upload whose sender stops for a while in the middle of its
// body, run against the proxy and against the reference gateway at the same time; the pause is longer than any timeout
// a careful transport configuration would pick for a whole exchange (35 s quick, 95 s thorough). Status, byte count
// and content must agree, and the uploaded object must be stored whole behind the proxy.
func laneSlow(c *ev.Ctx, extraEnv []string) {
	if !c.Want("slow") {
		return
	}
	p, err := newProg(c, "slow", 7, extraEnv)
	if err != nil {
		c.Inconclusive("gateway start (slow lane): " + firstLine(err.Error()))
		return
	}
	defer p.close()
	pause := 35 * time.Second
	if c.Thorough() {
		pause = 95 * time.Second
	}
	wd := pause + 90*time.Second
	const bucket = "slow-transfers"
	big := bytes.Repeat([]byte("0123456789abcdef"), 6<<20)  // 96 MiB: more than the socket buffers between all three processes hold
	up := bytes.Repeat([]byte("slow upload body"), 512<<10) // 8 MiB
	for _, s := range []*side{p.P, p.D} {
		if r := s.cl.CreateBucket(bucket); !r.OK() {
			c.Inconclusive("slow lane: create bucket on " + s.name + ": " + r.String())
			return
		}
		if r := s.cl.PutObject(bucket, "big", big); !r.OK() {
			c.Inconclusive("slow lane: seed object on " + s.name + ": " + r.String())
			return
		}
	}
	mpu := map[string]string{}
	for _, s := range []*side{p.P, p.D} {
		id, r := s.cl.CreateMPU(bucket, "slow-mpu")
		if !r.OK() {
			c.Inconclusive("slow lane: create upload on " + s.name + ": " + r.String())
			return
		}
		mpu[s.name] = id
	}
	type res struct{ get, put, part *s3c.Resp }
	out := map[string]*res{"P": {}, "D": {}}
	var wg sync.WaitGroup
	for _, s := range []*side{p.P, p.D} {
		s := s
		r := out[s.name]
		wg.Add(3)
		go func() {
			defer wg.Done()
			r.get = s.cl.Do(&s3c.Req{Method: "GET", Path: s3c.ObjPath(bucket, "big"), StallReadAfter: 4 << 20, StallFor: pause, Watchdog: wd})
		}()
		go func() {
			defer wg.Done()
			r.put = s.cl.Do(&s3c.Req{Method: "PUT", Path: s3c.ObjPath(bucket, "uploaded-slowly"), Body: up, PayloadHash: s3c.Unsigned, StallWriteAfter: 3 << 20, StallFor: pause, Watchdog: wd})
		}()
		go func() {
			defer wg.Done()
			r.part = s.cl.Do(&s3c.Req{Method: "PUT", Path: s3c.ObjPath(bucket, "slow-mpu"), Query: s3c.Q("partNumber", "1", "uploadId", mpu[s.name]), Body: up, PayloadHash: s3c.Unsigned, StallWriteAfter: 5 << 20, StallFor: pause, Watchdog: wd})
		}()
	}
	wg.Wait()
	c.Eval(6)
	desc := func(r *s3c.Resp) string {
		if r.Err != nil {
			return "error: " + r.Err.Error() + " " + r.Raw
		}
		return fmt.Sprintf("%s, %d body bytes", r.String(), len(r.Body))
	}
	det := func(what string, pr, dr *s3c.Resp) map[string]any {
		return map[string]any{"transfer": what, "pause": pause.String(), "proxy": desc(pr), "reference": desc(dr)}
	}
	P, D := out["P"], out["D"]
	// download
	switch {
	case D.get.Err != nil || !D.get.OK() || !bytes.Equal(D.get.Body, big):
		c.Observe("slow lane: the reference gateway itself does not complete the paused download: " + desc(D.get))
	case P.get.Err != nil || !P.get.OK() || !bytes.Equal(P.get.Body, big):
		c.Violation("slow-transfer:get-object:download-cut-or-altered-behind-the-proxy", "slow/get", det("GET of a 96 MiB object, reader pauses after 4 MiB", P.get, D.get))
	default:
		c.Distinct("slow|get-object|" + pause.String())
	}
	// uploads
	for _, u := range []struct {
		name string
		p, d *s3c.Resp
		key  string
	}{{"put-object", P.put, D.put, "uploaded-slowly"}, {"upload-part", P.part, D.part, ""}} {
		switch {
		case u.d.Err != nil || !u.d.OK():
			c.Observe("slow lane: the reference gateway itself does not complete the paused " + u.name + ": " + desc(u.d))
		case u.p.Err != nil || !u.p.OK():
			c.Violation("slow-transfer:"+u.name+":upload-fails-behind-the-proxy", "slow/"+u.name, det(u.name+" of 8 MiB, sender pauses in the middle", u.p, u.d))
		default:
			ok := true
			if u.key != "" {
				// stored whole at the endpoint
				if g := p.E.cl.GetObject(bucket, u.key); !g.OK() || !bytes.Equal(g.Body, up) {
					c.Violation("slow-transfer:"+u.name+":acknowledged-but-not-stored-whole-at-the-endpoint", "slow/"+u.name, map[string]any{"endpoint_get": desc(g)})
					ok = false
				}
			} else if u.p.Header.Get("Etag") != u.d.Header.Get("Etag") {
				c.Violation("slow-transfer:upload-part:etag-differs", "slow/upload-part", det("part ETag", u.p, u.d))
				ok = false
			}
			if ok {
				c.Distinct("slow|" + u.name + "|" + pause.String())
			}
		}
	}
}
