package c18

import (
	"bytes"
	"fmt"
	"strings"
	"sync"
	"time"

	"verif/harness/internal/ev"
	"verif/harness/internal/fx"
	"verif/harness/internal/s3c"
)

// Slow-transfer lane: transparency does not depend on how long a transfer takes. A download whose reader stops for a
// while in the middle of a large body, and an upload / part upload whose sender stops for a while in the middle of its
// body, run against the proxy and against the reference gateway at the same time; the pause is longer than any timeout
// a careful transport configuration would pick for a whole exchange (35 s quick, 95 s thorough). Status, byte count
// and content must agree, and the uploaded object must be stored whole behind the proxy.
func laneSlow(c *ev.Ctx, extraEnv []string) {
	if !c.Want("slow") {
		return
	}
	p, err := newProg(c, "slow", 7, extraEnv)
	if err != nil {
		c.Inconclusive("gateway start (slow lane): " + firstLine(err.Error()))
		return
	}
	defer p.close()
	pause := 35 * time.Second
	if c.Thorough() {
		pause = 95 * time.Second
	}
	wd := pause + 90*time.Second
	const bucket = "slow-transfers"
	big := bytes.Repeat([]byte("0123456789abcdef"), 6<<20)  // 96 MiB: more than the socket buffers between all three processes hold
	up := bytes.Repeat([]byte("slow upload body"), 512<<10) // 8 MiB
	for _, s := range []*side{p.P, p.D} {
		if r := s.cl.CreateBucket(bucket); !r.OK() {
			c.Inconclusive("slow lane: create bucket on " + s.name + ": " + r.String())
			return
		}
		if r := s.cl.PutObject(bucket, "big", big); !r.OK() {
			c.Inconclusive("slow lane: seed object on " + s.name + ": " + r.String())
			return
		}
	}
	mpu := map[string]string{}
	for _, s := range []*side{p.P, p.D} {
		id, r := s.cl.CreateMPU(bucket, "slow-mpu")
		if !r.OK() {
			c.Inconclusive("slow lane: create upload on " + s.name + ": " + r.String())
			return
		}
		mpu[s.name] = id
	}
	type res struct{ get, put, part *s3c.Resp }
	out := map[string]*res{"P": {}, "D": {}}
	var wg sync.WaitGroup
	for _, s := range []*side{p.P, p.D} {
		s := s
		r := out[s.name]
		wg.Add(3)
		go func() {
			defer wg.Done()
			r.get = s.cl.Do(&s3c.Req{Method: "GET", Path: s3c.ObjPath(bucket, "big"), StallReadAfter: 4 << 20, StallFor: pause, Watchdog: wd})
		}()
		go func() {
			defer wg.Done()
			r.put = s.cl.Do(&s3c.Req{Method: "PUT", Path: s3c.ObjPath(bucket, "uploaded-slowly"), Body: up, PayloadHash: s3c.Unsigned, StallWriteAfter: 3 << 20, StallFor: pause, Watchdog: wd})
		}()
		go func() {
			defer wg.Done()
			r.part = s.cl.Do(&s3c.Req{Method: "PUT", Path: s3c.ObjPath(bucket, "slow-mpu"), Query: s3c.Q("partNumber", "1", "uploadId", mpu[s.name]), Body: up, PayloadHash: s3c.Unsigned, StallWriteAfter: 5 << 20, StallFor: pause, Watchdog: wd})
		}()
	}
	wg.Wait()
	c.Eval(6)
	desc := func(r *s3c.Resp) string {
		if r.Err != nil {
			return "error: " + r.Err.Error() + " " + r.Raw
		}
		return fmt.Sprintf("%s, %d body bytes", r.String(), len(r.Body))
	}
	det := func(what string, pr, dr *s3c.Resp) map[string]any {
		return map[string]any{"transfer": what, "pause": pause.String(), "proxy": desc(pr), "reference": desc(dr)}
	}
	P, D := out["P"], out["D"]
	// download
	switch {
	case D.get.Err != nil || !D.get.OK() || !bytes.Equal(D.get.Body, big):
		c.Observe("slow lane: the reference gateway itself does not complete the paused download: " + desc(D.get))
	case P.get.Err != nil || !P.get.OK() || !bytes.Equal(P.get.Body, big):
		c.Violation("slow-transfer:get-object:download-cut-or-altered-behind-the-proxy", "slow/get", det("GET of a 96 MiB object, reader pauses after 4 MiB", P.get, D.get))
	default:
		c.Distinct("slow|get-object|" + pause.String())
	}
	// uploads
	for _, u := range []struct {
		name string
		p, d *s3c.Resp
		key  string
	}{{"put-object", P.put, D.put, "uploaded-slowly"}, {"upload-part", P.part, D.part, ""}} {
		switch {
		case u.d.Err != nil || !u.d.OK():
			c.Observe("slow lane: the reference gateway itself does not complete the paused " + u.name + ": " + desc(u.d))
		case u.p.Err != nil || !u.p.OK():
			c.Violation("slow-transfer:"+u.name+":upload-fails-behind-the-proxy", "slow/"+u.name, det(u.name+" of 8 MiB, sender pauses in the middle", u.p, u.d))
		default:
			ok := true
			if u.key != "" {
				// stored whole at the endpoint
				if g := p.E.cl.GetObject(bucket, u.key); !g.OK() || !bytes.Equal(g.Body, up) {
					c.Violation("slow-transfer:"+u.name+":acknowledged-but-not-stored-whole-at-the-endpoint", "slow/"+u.name, map[string]any{"endpoint_get": desc(g)})
					ok = false
				}
			} else if u.p.Header.Get("Etag") != u.d.Header.Get("Etag") {
				c.Violation("slow-transfer:upload-part:etag-differs", "slow/upload-part", det("part ETag", u.p, u.d))
				ok = false
			}
			if ok {
				c.Distinct("slow|" + u.name + "|" + pause.String())
			}
		}
	}
}

// Refused-owner-change lane: "the ownership ... data the gateway keeps for proxied buckets round-trips intact" - also
// across an admin request that is refused. An account that only the proxy's IAM knows is to become the owner of a
// proxied bucket; the endpoint does not know it and refuses. Whatever the proxy answers, a refused change changes
// nothing: GetBucketAcl through the proxy names the same owner as before and the would-be owner has no access.
func laneRefusedOwnerChange(c *ev.Ctx, extraEnv []string) {
	if !c.Want("owner") {
		return
	}
	p, err := newProg(c, "owner", 11, extraEnv)
	if err != nil {
		c.Inconclusive("gateway start (owner lane): " + firstLine(err.Error()))
		return
	}
	defer p.close()
	if r := p.envP.CreateUser("carol", "carol-secret-1", "user", 0, 0); r.Status != 201 && r.Status != 200 {
		c.Inconclusive("owner lane: create user on the proxy: " + r.String())
		return
	}
	root := p.P.cl
	carol := root.With("carol", "carol-secret-1")
	const b = "owned-by-root"
	if r := root.CreateBucket(b, "x-amz-object-ownership", "BucketOwnerPreferred"); !r.OK() {
		c.Inconclusive("owner lane: create bucket: " + r.String())
		return
	}
	root.PutObject(b, "doc", []byte("data"))
	ownerOf := func() string {
		g := root.Sub("GET", b, "", "acl=", nil)
		i := strings.Index(string(g.Body), "<Owner><ID>")
		if !g.OK() || i < 0 {
			return g.String()
		}
		rest := string(g.Body)[i+len("<Owner><ID>"):]
		j := strings.Index(rest, "</ID>")
		if j < 0 {
			return g.String()
		}
		return rest[:j]
	}
	before := ownerOf()
	if pr := carol.PutObject(b, "by-carol", []byte("x")); pr.OK() {
		c.Inconclusive("owner lane: the stranger can write before any change")
		return
	}
	for i, target := range []string{"carol", "nobody-knows-this-account"} {
		id := fmt.Sprintf("owner/%d", i)
		ch := root.Admin("/change-bucket-owner", s3c.Q("bucket", b, "owner", target), nil)
		c.Eval(1)
		if ch.Err != nil {
			c.Inconclusive("owner lane: transport error")
			return
		}
		after := ownerOf()
		det := map[string]any{"new_owner_asked_for": target, "answer": ch.String(), "owner_before": before, "owner_after": after}
		if ch.OK() {
			// accepted: then it must be in force everywhere (and is the new baseline)
			if after != target {
				c.Violation("owner-change:accepted-but-not-in-force", id, det)
			}
			before = after
			c.Distinct("owner|accepted|" + target)
			continue
		}
		if after != before {
			c.Violation("owner-change:refused-but-ownership-record-changed", id, det)
			continue
		}
		if target == "carol" {
			if pr := carol.PutObject(b, "by-carol", []byte("x")); pr.OK() {
				det["put_by_would_be_owner"] = pr.String()
				c.Violation("owner-change:refused-but-would-be-owner-has-access", id, det)
				continue
			}
		}
		c.Distinct("owner|refused|" + target)
	}
}

// Create-again lane: a CreateBucket for a name that is taken is answered the same by the proxy and by the reference
// gateway, and - being refused - changes nothing on either: the bucket is still there, still listed, still owned by
// whom it was, still holds what it held, still takes a write. Buckets in four states (empty, holding an object,
// holding only an upload in progress, owned by another account) are created again in four ways.
func laneCreateAgain(c *ev.Ctx, extraEnv []string) {
	if !c.Want("again") {
		return
	}
	p, err := newProg(c, "again", 13, extraEnv)
	if err != nil {
		c.Inconclusive("gateway start (create-again lane): " + firstLine(err.Error()))
		return
	}
	defer p.close()
	for _, e := range []*fx.Env{p.envP, p.envD} {
		if r := e.CreateUser("dora", "dora-secret-1", "userplus", 0, 0); r.Status != 201 && r.Status != 200 {
			c.Inconclusive("create-again lane: create user: " + r.String())
			return
		}
	}
	type look struct{ head, listed, get, put, owner string }
	observe := func(s *side, b string, hasObj bool) look {
		var l look
		l.head = fmt.Sprint(s.cl.Sub("HEAD", b, "", "", nil).Status)
		lb := s.cl.Sub("GET", "", "", "", nil)
		l.listed = fmt.Sprint(lb.Status, " ", strings.Contains(string(lb.Body), "<Name>"+b+"</Name>"))
		if hasObj {
			g := s.cl.GetObject(b, "kept")
			l.get = fmt.Sprint(g.Status, " ", len(g.Body))
		}
		a := s.cl.Sub("GET", b, "", "acl=", nil)
		l.owner = fmt.Sprint(a.Status)
		if i := strings.Index(string(a.Body), "<Owner><ID>"); i >= 0 {
			rest := string(a.Body)[i+len("<Owner><ID>"):]
			if j := strings.Index(rest, "</ID>"); j >= 0 {
				l.owner += " " + rest[:j]
			}
		}
		pr := s.cl.PutObject(b, "written-after", []byte("after"))
		l.put = fmt.Sprint(pr.Status)
		s.cl.DeleteObject(b, "written-after")
		return l
	}
	ways := []struct {
		name string
		as   string
		hdr  []string
	}{
		{"plain", "root", nil},
		{"with-ownership", "root", []string{"x-amz-object-ownership", "BucketOwnerPreferred"}},
		{"with-acl", "root", []string{"x-amz-object-ownership", "BucketOwnerPreferred", "x-amz-acl", "public-read"}},
		{"by-another-account", "dora", nil},
	}
	n := 0
	for _, state := range []string{"empty", "holding-an-object", "holding-an-upload", "owned-by-another-account"} {
		for _, w := range ways {
			n++
			id := fmt.Sprintf("again/%s/%s", state, w.name)
			if !c.Want(id) {
				continue
			}
			b := fmt.Sprintf("again-%d", n)
			ready := true
			for _, s := range []*side{p.P, p.D} {
				cl := s.cl
				if state == "owned-by-another-account" {
					cl = cl.With("dora", "dora-secret-1")
				}
				if r := cl.CreateBucket(b); !r.OK() {
					ready = false
				}
				switch state {
				case "holding-an-object":
					ready = ready && s.cl.PutObject(b, "kept", []byte("kept bytes")).OK()
				case "holding-an-upload":
					ready = ready && s.cl.Sub("POST", b, "pending", "uploads=", nil).OK()
				}
			}
			if !ready {
				c.Inconclusive("create-again lane: preparing " + id)
				continue
			}
			hasObj := state == "holding-an-object"
			var before, after [2]look
			var ans [2]*s3c.Resp
			for i, s := range []*side{p.P, p.D} {
				before[i] = observe(s, b, hasObj)
				cl := s.cl
				if w.as == "dora" {
					cl = cl.With("dora", "dora-secret-1")
				}
				ans[i] = cl.CreateBucket(b, w.hdr...)
				after[i] = observe(s, b, hasObj)
			}
			c.Eval(1)
			if ans[0].Err != nil || ans[1].Err != nil {
				c.Inconclusive("create-again lane: transport error")
				continue
			}
			det := map[string]any{"bucket_state": state, "created_again": w.name, "proxy_answer": ans[0].String(), "reference_answer": ans[1].String(),
				"proxy_before": fmt.Sprintf("%+v", before[0]), "proxy_after": fmt.Sprintf("%+v", after[0]), "reference_before": fmt.Sprintf("%+v", before[1]), "reference_after": fmt.Sprintf("%+v", after[1])}
			if before[0] != before[1] {
				// the two sides differ before anything was asked: not this lane's subject
				c.Observe("again|differs-before|" + state)
				continue
			}
			bad := false
			if ans[0].Status != ans[1].Status || ans[0].ErrCode() != ans[1].ErrCode() {
				bad = true
				c.Violation(fmt.Sprintf("create-again:answers-differ:%s:%s:%d-%s-vs-%d-%s", state, w.name, ans[0].Status, ans[0].ErrCode(), ans[1].Status, ans[1].ErrCode()), id, det)
			}
			if after[0] != after[1] {
				bad = true
				c.Violation("create-again:bucket-differs-afterwards:"+state, id, det)
			}
			if !ans[0].OK() && after[0] != before[0] {
				bad = true
				c.Violation("create-again:refused-but-bucket-changed:"+state, id, det)
			}
			if !bad {
				c.Distinct(fmt.Sprintf("again|%s|%s|%d", state, w.name, ans[0].Status))
			}
		}
	}
}

// Wrong-secret lane: an upload signed with a secret that is not the one of its access key is refused by the
// reference gateway before anything is stored. Through the proxy the same request must be refused too and the
// endpoint must hold nothing afterwards - whatever the size of the body and the way it is sent.
func laneWrongSecret(c *ev.Ctx, extraEnv []string) {
	if !c.Want("wrongsecret") {
		return
	}
	p, err := newProg(c, "wrongsecret", 17, extraEnv)
	if err != nil {
		c.Inconclusive("gateway start (wrong-secret lane): " + firstLine(err.Error()))
		return
	}
	defer p.close()
	b := "bk-alpha"
	p.step(&op{kind: "create-bucket", class: "new", desc: "PUT /" + b, mut: true, bucket: b, dom: "cfg", bucketEffect: true, req: bktReq("PUT", b, "", nil, nil), onAck: func() { p.m.addBucket(b) }})
	pol := []byte(fmt.Sprintf(`{"Version":"2012-10-17","Statement":[{"Effect":"Allow","Principal":"*","Action":"s3:*","Resource":["arn:aws:s3:::%s","arn:aws:s3:::%s/*"]}]}`, b, b))
	p.step(&op{kind: "put-bucket-policy", class: "open", desc: "PUT ?policy (open)", mut: true, bucket: b, dom: "cfg", req: bktReq("PUT", b, "policy=", nil, pol)})
	n := 0
	for _, size := range []int{0, 1, 3000, 1 << 20} {
		for _, how := range []string{"signed", "unsigned", "chunked", "existing-key"} {
			n++
			id := fmt.Sprintf("wrongsecret/%d", n)
			if !c.Want(id) || p.abort {
				continue
			}
			body := bytes.Repeat([]byte{byte('a' + n)}, size)
			k := fmt.Sprintf("ws-%d", n)
			if how == "existing-key" {
				old := []byte("what the key held before")
				p.step(&op{kind: "put", class: "plain", desc: "PUT " + k, mut: true, bucket: b, keys: []string{b + "/" + k}, dom: "obj", req: objReq("PUT", b, k, "", nil, old),
					onAck: func() { p.m.objs[b][k] = old }})
			}
			o := &op{kind: "put", class: "wrong-secret", eclass: "wrong-secret", as: "alice+wrong-secret", desc: fmt.Sprintf("PUT /%s/%s len=%d (%s) signed with a wrong secret", b, k, size, how), mut: true, bucket: b, keys: []string{b + "/" + k}, dom: "obj"}
			o.req = func(*side) *s3c.Req {
				r := &s3c.Req{Method: "PUT", Path: s3c.ObjPath(b, k), Body: body}
				switch how {
				case "unsigned":
					r.PayloadHash = s3c.Unsigned
				case "chunked":
					r.Stream = &s3c.Stream{Mode: s3c.StreamSigned, ChunkSizes: []int{64 << 10}}
				}
				return r
			}
			p.step(o)
		}
	}
}
