// Package c18: the S3-proxy backend is transparent.
//
// Three gateways per program: E ("endpoint", D1) and D ("direct", D2) are identical
// posix gateways on separate empty stores, P is `versitygw s3 --endpoint http://E`.
// The same generated program runs against P and against D, operation by operation;
// every client-visible part of the two answers is compared after normalising what
// legitimately differs. After every mutating operation the stored effect is read
// back from E directly and compared with what D stored (P could be self-consistent
// but wrong). Operations P answers with 501 NotImplemented are "not offered": not
// judged, listed in the evidence.
package c18

import (
	"fmt"
	"math/rand"
	"os"
	"sort"
	"strings"
	"sync"
	"time"

	"verif/harness/internal/ev"
	"verif/harness/internal/fx"
	"verif/harness/internal/gw"
	"verif/harness/internal/reg"
	"verif/harness/internal/s3c"
)

func init() { reg.Register("C18", "exploration", Run) }

var debug = os.Getenv("C18_DEBUG") != ""

type upState struct {
	id    string
	etags map[int]string
}

// side is one gateway as seen by the program: its clients and the ids it handed out.
type side struct {
	name  string
	g     *gw.GW
	cl    *s3c.Client
	ups   map[int]*upState
	slot  map[string]string // upload id -> slot name
	vers  map[string]string // version slot -> version id
	addrs *[]string
}

func (s *side) slotOf(id string) string {
	if n, ok := s.slot[id]; ok {
		return n
	}
	return id
}

func (s *side) normAddr(v string) string {
	for _, a := range *s.addrs {
		v = strings.ReplaceAll(v, a, "<addr>")
	}
	return v
}

var users = map[string]string{"alice": "alicesecret1", "bob": "bobsecret12"}

func (s *side) client(as string) *s3c.Client {
	if as == "" {
		return s.cl
	}
	if strings.HasSuffix(as, "+wrong-secret") {
		// an existing access key with a secret that is not its own: the signature cannot be right
		return s.cl.With(strings.TrimSuffix(as, "+wrong-secret"), "not-the-secret-of-this-key")
	}
	return s.cl.With(as, users[as])
}

func (s *side) uploadID(slot int) string {
	if u := s.ups[slot]; u != nil && u.id != "" {
		return u.id
	}
	return "no-such-upload-0000"
}

func (s *side) etag(slot, n int) string {
	if u := s.ups[slot]; u != nil && u.etags[n] != "" {
		return u.etags[n]
	}
	return "00000000000000000000000000000000"
}

type reqFn func(s *side) *s3c.Req

// op is one step of a program.
type op struct {
	kind         string             // operation name (signature prefix)
	class        string             // argument class
	eclass       string             // argument class used in error-code signatures (default: class)
	tag          string             // input class appended to the operation name in status / error-code signatures
	ktag         string             // input class appended to the operation name in every signature of this step
	skip         func(p *prog) bool // decided when the step is due: not applicable any more
	storedSig    string             // when set: all differing stored header fields are one finding <kind>:stored:<storedSig>
	inherit      []string           // source objects: when their stored state already differs, the result inherits the difference
	desc         string
	as           string // "" = root
	mut          bool
	bucket       string
	keys         []string // objects read or changed
	dom          string   // which part of the state the answer depends on: obj | list | cfg | up | svc | none
	slot         int
	body         string // how to read the body: auto | xml | json | raw
	req          reqFn
	after        func(s *side, r *s3c.Resp)         // remember ids of this side
	next         func(s *side, r *s3c.Resp) reqFn   // paging chain: request for the following page (nil = done)
	onAck        func()                             // the reference acknowledged: update the generator's model
	rt           func(p *prog, pr *s3c.Resp) []diff // round-trip oracle on the proxy's answer alone
	onPAck       func(p *prog)                      // the proxy acknowledged (round-trip expectations)
	bucketEffect bool                               // creates / deletes the bucket: verify its existence at E
}

type prog struct {
	c         *ev.Ctx
	id        string
	r         *rand.Rand
	P         *side
	D         *side
	E         *side
	envP      *fx.Env
	envD      *fx.Env
	envE      *fx.Env
	m         *model
	taint     map[string]bool
	log       []string
	n501      map[string]int
	n2xx      map[string]int
	first501  map[string]string
	queue     []*op
	mpuKeys   map[string]bool // bucket/key of every multipart upload generated so far (acknowledged or still queued)
	stepNo    int
	abort     bool
	addrs     []string
	versioned bool
	bigParts  int
	lastDiffs int
	logOff    map[string]int64
	ign       map[string]map[string]bool // object -> response fields whose stored value is known to differ (already reported)
	ignEver   map[string]map[string]bool // the same, never reset (old versions of the object)
	exp       map[string]string          // round-trip expectations of P: "policy:<bucket>" etc.
}

var lockKinds = map[string]bool{"put-object-retention": true, "put-object-legal-hold": true, "put-object-lock-configuration": true}

var (
	notOfferedMu sync.Mutex
	notOffered   = map[string]bool{}
	answered     = map[string]bool{}
	comparedBy   = map[string]int{}
)

// proxyEnv: the AWS SDK inside the proxy must not look for anything outside the sandbox.
var proxyEnv = []string{"AWS_EC2_METADATA_DISABLED=true", "AWS_CONFIG_FILE=/dev/null", "AWS_SHARED_CREDENTIALS_FILE=/dev/null"}

func newProg(c *ev.Ctx, id string, seed int64, extraEnv []string) (*prog, error) {
	p := &prog{c: c, id: id, r: rand.New(rand.NewSource(seed)), taint: map[string]bool{}, n501: map[string]int{}, n2xx: map[string]int{},
		first501: map[string]string{}, exp: map[string]string{}, ign: map[string]map[string]bool{}, ignEver: map[string]map[string]bool{}, logOff: map[string]int64{}}
	p.versioned = p.r.Intn(3) == 0
	cfg := gw.Config{Versioning: p.versioned, Debug: os.Getenv("C18_PROBE") == "edebug"}
	var err error
	if p.envE, err = fx.New("c18e", cfg, 1); err != nil {
		return nil, err
	}
	if p.envD, err = fx.New("c18d", cfg, 1); err != nil {
		p.close()
		return nil, err
	}
	st, err := gw.NewStore(fx.UniqueDir("c18p"))
	if err != nil {
		p.close()
		return nil, err
	}
	pcfg := gw.Config{S3Proxy: &gw.Proxy{Endpoint: "http://" + p.envE.GWs[0].Addr, AK: gw.RootAK, SK: gw.RootSK}, Env: append(append([]string{}, proxyEnv...), extraEnv...)}
	if p.envP, err = fx.OnStore("c18p", st, pcfg, 1); err != nil {
		p.close()
		return nil, err
	}
	mk := func(name string, e *fx.Env) *side {
		return &side{name: name, g: e.GWs[0], cl: e.Client(0), ups: map[int]*upState{}, slot: map[string]string{}, vers: map[string]string{}, addrs: &p.addrs}
	}
	p.P, p.D, p.E = mk("P", p.envP), mk("D", p.envD), mk("E", p.envE)
	p.addrs = []string{p.P.g.Addr, p.D.g.Addr, p.E.g.Addr}
	// the same accounts everywhere: E must be identical to D, and P keeps its own IAM
	for _, e := range []*fx.Env{p.envE, p.envD, p.envP} {
		for _, u := range []string{"alice", "bob"} {
			if r := e.CreateUser(u, users[u], "user", 0, 0); r.Status != 201 && r.Status != 200 {
				p.close()
				return nil, fmt.Errorf("create user on %s: %s", e.Name, r.String())
			}
		}
	}
	p.m = newModel()
	return p, nil
}

func (p *prog) close() {
	for _, e := range []*fx.Env{p.envP, p.envD, p.envE} {
		if e != nil {
			e.Close()
		}
	}
}

func (p *prog) do(s *side, o *op, rq reqFn) *s3c.Resp {
	r := rq(s)
	return s.client(o.as).Do(r)
}

func okResp(r *s3c.Resp) bool { return r.Err == nil && r.Status >= 200 && r.Status < 300 }

func (p *prog) tainted(o *op) bool {
	if o.as != "" && o.bucket != "" && p.taint["c:"+o.bucket] {
		return true // the access decision depends on settings that already differ (reported)
	}
	switch o.dom {
	case "obj":
		for _, k := range o.keys {
			if p.taint["o:"+k] {
				return true
			}
		}
		return p.taint["x:"+o.bucket]
	case "list":
		return p.taint["l:"+o.bucket] || p.taint["x:"+o.bucket]
	case "cfg":
		return p.taint["c:"+o.bucket] || p.taint["x:"+o.bucket]
	case "up":
		return p.taint[fmt.Sprintf("u:%d", o.slot)] || p.taint["x:"+o.bucket]
	case "ups":
		return p.taint["ul:"+o.bucket] || p.taint["x:"+o.bucket]
	case "svc":
		return p.taint["svc"]
	}
	return false
}

// setTaint marks the state an operation with diverging outcome may have touched.
func (p *prog) setTaint(o *op) {
	for _, k := range o.keys {
		p.taint["o:"+k] = true
	}
	if len(o.keys) > 0 || o.dom == "obj" {
		p.taint["l:"+o.bucket] = true
	}
	switch o.dom {
	case "cfg":
		p.taint["c:"+o.bucket] = true
	case "up":
		p.taint[fmt.Sprintf("u:%d", o.slot)] = true
		p.taint["ul:"+o.bucket] = true
	}
	if o.bucketEffect {
		p.taint["x:"+o.bucket] = true
		p.taint["svc"] = true
	}
}

// panicNote: a recovered panic the proxy logged while it served the current request (requests of a program are sequential).
func (p *prog) panicNote() string {
	b, err := os.ReadFile(p.P.g.LogPath)
	if err != nil || int64(len(b)) <= p.logOff[p.P.g.LogPath] {
		return ""
	}
	nb := b[p.logOff[p.P.g.LogPath]:]
	p.logOff[p.P.g.LogPath] = int64(len(b))
	i := strings.Index(string(nb), "panic: ")
	if i < 0 {
		return ""
	}
	msg := firstLine(string(nb[i:]))
	if j := strings.Index(string(nb[i:]), "versitygw/backend/s3proxy."); j >= 0 {
		msg += " in " + strings.SplitN(firstLine(string(nb[i+j:])), "(0x", 2)[0]
	}
	return msg
}

func (p *prog) violation(sig string, o *op, detail map[string]any) {
	detail["step"] = p.stepNo
	detail["operation"] = o.desc
	detail["versioning_dir"] = p.versioned
	n := len(p.log)
	from := 0
	if n > 45 {
		from = n - 45
	}
	detail["program_so_far"] = append([]string{}, p.log[from:]...)
	if debug {
		fmt.Printf("  !! %s %v vs %v\n", sig, detail["proxy"], detail["reference"])
	}
	p.c.Violation(sig, p.id, detail)
}

// transport handles a request that got no HTTP answer. Returns true when the program can go on.
func (p *prog) transport(s *side, o *op, r *s3c.Resp) bool {
	if s == p.P {
		// a dying process needs a moment until its exit is collected (watchdog only: no exit = inconclusive)
		p.P.g.WaitExit(5 * time.Second)
	}
	if s == p.P && !p.P.g.Alive() {
		cr := p.P.g.ScrapeCrash()
		frame, msg := "?", fmt.Sprint(p.P.g.ExitErr())
		if cr != nil {
			frame, msg = cr.TopFrame, cr.Message
			if i := strings.LastIndex(frame, "/"); i >= 0 {
				frame = frame[i+1:]
			}
		}
		det := map[string]any{"proxy": "process died: " + msg, "reference": "(answers)", "top_frame": frame}
		if cr != nil {
			ex := cr.Excerpt
			if len(ex) > 1500 {
				ex = ex[:1500]
			}
			det["excerpt"] = ex
		}
		p.violation(o.kind+":proxy-crashes:"+frame, o, det)
		p.setTaint(o)
		// the state lives in E: restart the proxy and go on
		if err := p.envP.Restart(0); err != nil {
			p.c.Inconclusive("proxy restart after crash failed")
			p.abort = true
			return false
		}
		p.rebindP()
		return true
	}
	p.c.Inconclusive("transport error on " + s.name + " (" + o.kind + ")")
	p.abort = true
	return false
}

func (p *prog) rebindP() {
	old := p.P
	p.P = &side{name: "P", g: p.envP.GWs[0], cl: p.envP.Client(0), ups: old.ups, slot: old.slot, vers: old.vers, addrs: &p.addrs}
	p.addrs = append(p.addrs, p.P.g.Addr)
}

// step runs one operation on P and on the reference and judges the pair.
func (p *prog) step(o *op) {
	if p.abort || (o.skip != nil && o.skip(p)) {
		return
	}
	p.stepNo++
	who := ""
	if o.as != "" {
		who = " as " + o.as
	}
	p.log = append(p.log, fmt.Sprintf("%d %s[%s]%s %s", p.stepNo, o.kind, o.class, who, o.desc))
	if o.body == "" {
		o.body = "auto"
	}
	if o.dom == "up" && o.slot > 0 && o.kind != "create-mpu" {
		open := false
		for _, u := range p.m.ups {
			if u.slot == o.slot && u.open {
				open = true
			}
		}
		if !open {
			ec := "closed-upload"
			if strings.HasPrefix(o.eclass, "wrong-") {
				ec += "+" + o.eclass
			}
			o.class, o.eclass = "closed-upload", ec
		}
	}
	tainted := p.tainted(o)
	for _, k := range o.inherit {
		if p.taint["o:"+k] {
			// garbage in, garbage out: the copy of an object that already differs is not judged again
			tainted = true
			defer p.setTaint(o)
			break
		}
	}
	partner := p.D
	judge := !tainted
	if tainted && !o.mut && o.as == "" && (o.dom == "obj" || o.dom == "list") {
		// the stored state already differs (reported): judge the read path against the endpoint itself
		partner = nil
	}
	rq := o.req
	for page := 0; rq != nil && page < 60; page++ {
		rp := p.do(p.P, o, rq)
		p.c.Eval(1)
		if rp.Err != nil {
			if !p.transport(p.P, o, rp) {
				return
			}
			return
		}
		if rp.Status == 501 {
			// not offered by the proxy backend: not judged. Mutations are not sent to the reference either,
			// so that the two states stay comparable.
			p.n501[o.kind]++
			if _, ok := p.first501[o.kind]; !ok {
				p.first501[o.kind] = o.desc
			}
			var rd *s3c.Resp
			if !o.mut || !lockKinds[o.kind] {
				// (object-lock mutations would change what later deletes do on the reference: those are not sent)
				rd = p.do(p.D, o, rq)
				if rd.Err != nil {
					p.transport(p.D, o, rd)
					return
				}
				if rd.Status == 501 {
					p.c.Distinct("both-501|" + o.kind)
					return
				}
			}
			notOfferedMu.Lock()
			notOffered[o.kind] = true
			notOfferedMu.Unlock()
			p.c.Observe("not offered by the proxy backend (501): " + o.kind)
			if debug {
				fmt.Printf("%s %-60s P=501 (not offered)\n", p.id, p.log[len(p.log)-1])
			}
			return
		}
		if okResp(rp) {
			p.n2xx[o.kind]++
		}
		panicked := ""
		if rp.Status == 500 {
			panicked = p.panicNote()
		}
		if debug && (rp.Status >= 500 || rp.Status == 403) {
			if b, err := os.ReadFile(p.P.g.LogPath); err == nil {
				if len(b) > 1500 {
					b = b[len(b)-1500:]
				}
				fmt.Printf("---- proxy log tail (%s)\n%s\n----\n", rp.String(), b)
			}
		}
		notOfferedMu.Lock()
		answered[o.kind] = true
		notOfferedMu.Unlock()
		var rd *s3c.Resp
		ref := p.D
		if partner == nil {
			ref = p.E
			rd = p.do(p.E, o, rq)
			// keep D in step for side-effect free reads too (nothing to do)
		} else {
			rd = p.do(p.D, o, rq)
		}
		if rd.Err != nil {
			p.transport(ref, o, rd)
			return
		}
		if o.after != nil {
			o.after(p.P, rp)
			if ref == p.D {
				o.after(p.D, rd)
			}
		}
		if debug {
			fmt.Printf("%s %-70s P=%s %s=%s judged=%v\n", p.id, p.log[len(p.log)-1], rp.String(), ref.name, rd.String(), judge || partner == nil)
		}
		if okResp(rd) && ref == p.D && o.onAck != nil && page == 0 {
			o.onAck()
		}
		if okResp(rp) && o.onPAck != nil && page == 0 {
			o.onPAck(p)
		}
		if o.mut && okResp(rp) && (o.kind == "put" || o.kind == "copy" || o.kind == "complete-mpu") {
			// the object is rewritten: differences known for its previous content no longer apply ...
			for _, k := range o.keys {
				delete(p.ign, k)
				// ... but a copy inherits the ones of its source
				for _, src := range o.inherit {
					for f := range p.ign[src] {
						p.ignore(k, f)
					}
				}
			}
		}
		if judge || partner == nil {
			vp, vd := mkView(rp, p.P, o.body), mkView(rd, ref, o.body)
			diffs, msgDiffers := compareViews(vp, vd)
			p.lastDiffs = len(diffs)
			if msgDiffers {
				p.c.Observe("same status and error code, different message text: " + o.kind)
			}
			p.c.Distinct(o.kind + "|" + o.class)
			p.c.Add("operations_compared", 1)
			notOfferedMu.Lock()
			comparedBy[o.kind]++
			notOfferedMu.Unlock()
			for _, d := range diffs {
				if o.dom == "obj" && p.ignored(o, d.field) {
					continue
				}
				kind := o.kind + o.ktag
				sig := kind + ":" + d.field
				switch d.field {
				case "error-code":
					ec := o.eclass
					if ec == "" {
						ec = o.class
					}
					sig = "error-code:" + kind + o.tag + ":" + ec + ":" + strings.ReplaceAll(strings.TrimSpace(d.p), " ", "-") + "-vs-" + strings.ReplaceAll(strings.TrimSpace(d.d), " ", "-")
				case "status":
					if o.eclass != "" && o.eclass != "valid" && o.eclass != "existing" {
						kind += ":" + o.eclass
					}
					sig = kind + o.tag + ":status:" + strings.ReplaceAll(strings.TrimSpace(d.p), " ", "-") + "-vs-" + strings.ReplaceAll(strings.TrimSpace(d.d), " ", "-")
				}
				det := map[string]any{"proxy": d.p, "reference": d.d, "reference_gateway": ref.name}
				if panicked != "" {
					det["proxy_log"] = panicked
				}
				p.violation(sig, o, det)
			}
			if o.mut && len(diffs) > 0 && (diffs[0].field == "status" || diffs[0].field == "error-code") && okResp(rp) != okResp(rd) {
				p.setTaint(o)
			}
		} else if o.mut && okResp(rp) != okResp(rd) {
			p.setTaint(o)
		}
		if o.mut && o.dom == "up" && (judge || partner == nil) && p.lastDiffs > 0 {
			p.setTaint(o) // the part / upload differs: what is assembled from it differs too (reported here)
		}
		if o.mut && o.dom == "up" && rp.Status >= 500 {
			p.setTaint(o) // a failure report of the proxy says nothing about what the endpoint did (see put:failure-reported-...)
		}
		if o.rt != nil && okResp(rp) && page == 0 {
			for _, d := range o.rt(p, rp) {
				p.violation(d.field, o, map[string]any{"proxy": d.p, "reference": d.d, "oracle": "round trip through the proxy"})
			}
		}
		if o.mut && !tainted {
			p.verifyStored(o, okResp(rp))
			p.verifySettings(o)
		} else if o.mut && tainted && o.dom != "cfg" {
			p.setTaint(o) // what is built from diverged state has diverged
		}
		// paging
		if o.next == nil || !okResp(rp) || !okResp(rd) {
			break
		}
		np, nd := o.next(p.P, rp), o.next(ref, rd)
		if (np == nil) != (nd == nil) {
			break // the truncation flag differed: reported above
		}
		if np == nil {
			break
		}
		// both sides continue with their own marker; on one stream of requests
		pr, dr := np, nd
		rq = func(s *side) *s3c.Req {
			if s == p.P {
				return pr(s)
			}
			return dr(s)
		}
		p.c.Distinct(o.kind + "|next-page")
	}
}

func (p *prog) ignore(key, field string) {
	if p.ign[key] == nil {
		p.ign[key] = map[string]bool{}
	}
	p.ign[key][field] = true
	if p.ignEver[key] == nil {
		p.ignEver[key] = map[string]bool{}
	}
	p.ignEver[key][field] = true
}

func (p *prog) ignored(o *op, field string) bool {
	for _, k := range o.keys {
		if p.ign[k][field] || (o.class == "version-id" && p.ignEver[k][field]) {
			return true
		}
	}
	return false
}

// fields whose difference means "another object": everything read from the key diverges afterwards
var wholeObject = map[string]bool{"existence": true, "body": true, "etag": true, "content-length": true}

// verifyStored reads what a mutating operation left at the endpoint E and compares it with what D holds.
func (p *prog) verifyStored(o *op, pOK bool) {
	if p.abort {
		return
	}
	if o.bucketEffect && !p.taint["x:"+o.bucket] {
		re, rd := p.E.cl.HeadBucket(o.bucket), p.D.cl.HeadBucket(o.bucket)
		if re.Err != nil || rd.Err != nil {
			p.c.Inconclusive("transport error during verification")
			p.abort = true
			return
		}
		if re.Status != rd.Status {
			p.violation(o.kind+":stored:bucket-existence", o, map[string]any{"proxy": "endpoint HeadBucket " + re.String(), "reference": "HeadBucket " + rd.String()})
			p.setTaint(o)
		}
	}
	if p.taint["x:"+o.bucket] {
		return
	}
	for _, k := range o.keys {
		if p.taint["o:"+k] {
			continue
		}
		b, key, _ := strings.Cut(k, "/")
		probes := []struct {
			name string
			rq   *s3c.Req
			body string
		}{
			{"head", &s3c.Req{Method: "HEAD", Path: s3c.ObjPath(b, key), Header: s3c.H{{"x-amz-checksum-mode", "ENABLED"}}}, "raw"},
			{"get", &s3c.Req{Method: "GET", Path: s3c.ObjPath(b, key)}, "raw"},
			{"tagging", &s3c.Req{Method: "GET", Path: s3c.ObjPath(b, key), Query: "tagging="}, "xml"},
		}
		for _, pb := range probes {
			q1, q2 := *pb.rq, *pb.rq
			re, rd := p.E.cl.Do(&q1), p.D.cl.Do(&q2)
			p.c.Eval(1)
			if re.Err != nil || rd.Err != nil {
				p.c.Inconclusive("transport error during verification")
				p.abort = true
				return
			}
			ve, vd := mkView(re, p.E, pb.body), mkView(rd, p.D, pb.body)
			diffs, _ := compareViews(ve, vd)
			bad := false
			if !pOK {
				var nd []diff
				for _, d := range diffs {
					if !p.ign[k][d.field] {
						nd = append(nd, d)
					}
				}
				diffs = nd
			}
			if !pOK && len(diffs) > 0 {
				// the proxy reported a failure, yet the endpoint's object changed: one finding, whatever differs
				ec := ""
				if o.eclass != "" && o.eclass != "valid" && o.eclass != "existing" {
					ec = ":" + o.eclass
				}
				p.violation(o.kind+ec+":failure-reported-but-endpoint-changed", o, map[string]any{"proxy": "at the endpoint: " + diffs[0].p, "reference": diffs[0].d, "key": k, "probe": pb.name, "differing_fields": len(diffs)})
				bad = true
				diffs = nil
			}
			for _, d := range diffs {
				f := d.field
				if f == "status" || f == "error-code" {
					f = "existence"
				}
				if pb.name == "tagging" {
					f = "tag-set"
				}
				if p.ign[k][d.field] || p.ign[k][f] {
					continue
				}
				if o.storedSig != "" && !wholeObject[f] && pb.name != "tagging" {
					f = o.storedSig
				}
				p.violation(o.kind+":stored:"+f, o, map[string]any{"proxy": "at the endpoint: " + d.p, "reference": d.d, "key": k, "probe": pb.name})
				if wholeObject[f] {
					bad = true
				} else {
					// reported once; reads of this object are still judged on everything else
					p.ignore(k, d.field)
					if pb.name == "tagging" {
						p.ignore(k, "x-amz-tagging-count")
					}
				}
			}
			if bad {
				p.taint["o:"+k] = true
				p.taint["l:"+b] = true
				break
			}
		}
		p.c.Add("stored_effects_verified", 1)
	}
}

// verifySettings reads the bucket settings back through P and through D after an operation that may change them:
// the effect of the operation must be the same on both sides (attributes a lost effect to the operation that lost it).
func (p *prog) verifySettings(o *op) {
	if p.abort || o.dom != "cfg" || p.taint["c:"+o.bucket] || p.taint["x:"+o.bucket] {
		return
	}
	subs := []struct{ name, q, kind string }{{"acl", "acl=", "xml"}, {"policy", "policy=", "json"}, {"ownership-controls", "ownershipControls=", "xml"}}
	for _, s := range subs {
		rq := &s3c.Req{Method: "GET", Path: s3c.BucketPath(o.bucket), Query: s.q}
		rq2 := *rq
		rp, rd := p.P.cl.Do(rq), p.D.cl.Do(&rq2)
		p.c.Eval(1)
		if rp.Err != nil || rd.Err != nil {
			p.c.Inconclusive("transport error during settings verification")
			p.abort = true
			return
		}
		if rp.Status == 501 {
			continue
		}
		diffs, _ := compareViews(mkView(rp, p.P, s.kind), mkView(rd, p.D, s.kind))
		for _, d := range diffs {
			f := d.field
			if f == "status" || f == "error-code" {
				f = "existence"
			}
			p.violation(o.kind+":effect:"+s.name+":"+f, o, map[string]any{"proxy": "GET ?" + s.name + " through the proxy afterwards: " + d.p, "reference": d.d})
		}
		if len(diffs) > 0 {
			p.taint["c:"+o.bucket] = true
			return
		}
	}
	p.c.Add("settings_effects_verified", 1)
}

// restartProxy restarts P and checks that the settings it keeps for the buckets read back unchanged.
func (p *prog) restartProxy() {
	if p.abort {
		return
	}
	type snapT struct {
		status int
		body   string
	}
	subs := []struct{ name, q, kind string }{{"acl", "acl=", "xml"}, {"policy", "policy=", "json"}, {"ownership", "ownershipControls=", "xml"}, {"versioning", "versioning=", "xml"}}
	take := func() map[string]snapT {
		m := map[string]snapT{}
		for _, b := range p.m.buckets {
			for _, s := range subs {
				if s.name == "versioning" && !p.versioned {
					continue
				}
				r := p.P.cl.Do(&s3c.Req{Method: "GET", Path: s3c.BucketPath(b), Query: s.q})
				if r.Err != nil {
					o := &op{kind: "get-bucket-" + s.name, desc: "GET /" + b + "?" + s.q + " (around the proxy restart)", bucket: b, dom: "cfg"}
					if p.transport(p.P, o, r) {
						continue
					}
					return nil
				}
				body := ""
				if okResp(r) {
					if s.kind == "json" {
						body = canonJSON(r.Body)
					} else if es, ok := xmlEntries(r.Body, p.P); ok {
						body = fmt.Sprint(es)
					} else {
						body = string(r.Body)
					}
				} else {
					body = r.ErrCode()
				}
				m[b+"|"+s.name] = snapT{r.Status, body}
			}
		}
		return m
	}
	before := take()
	if before == nil {
		p.c.Inconclusive("transport error before proxy restart")
		p.abort = true
		return
	}
	p.stepNo++
	p.log = append(p.log, fmt.Sprintf("%d restart-proxy", p.stepNo))
	if err := p.envP.Restart(0); err != nil {
		p.c.Inconclusive("proxy restart failed")
		p.abort = true
		return
	}
	p.rebindP()
	after := take()
	if after == nil {
		p.c.Inconclusive("transport error after proxy restart")
		p.abort = true
		return
	}
	var ks []string
	for k := range before {
		ks = append(ks, k)
	}
	sort.Strings(ks)
	for _, k := range ks {
		name := strings.SplitN(k, "|", 2)[1]
		p.c.Eval(1)
		if _, ok := after[k]; !ok || before[k].status == 501 {
			continue
		}
		if before[k].status == 200 {
			p.c.Distinct("restart|" + name)
		}
		if before[k] != after[k] {
			o := &op{kind: name + "-roundtrip", desc: "GET ?" + name + " of " + k + " before and after a restart of the proxy"}
			p.taint["c:"+strings.SplitN(k, "|", 2)[0]] = true
			p.violation(name+"-roundtrip:differs-after-restart", o, map[string]any{"proxy": fmt.Sprintf("after: %d %s", after[k].status, short(after[k].body)), "reference": fmt.Sprintf("before: %d %s", before[k].status, short(before[k].body))})
		}
	}
}

// finalSweep compares the complete visible state at the end of a program: P vs D, and E vs D.
func (p *prog) finalSweep() {
	for _, b := range append([]string{}, p.m.buckets...) {
		if p.abort {
			return
		}
		p.step(p.listOp("list-v2", b, "", "", "", "", true, "final"))
		if p.taint["x:"+b] || p.taint["l:"+b] {
			continue
		}
		// E vs D: the same keys, sizes, etags
		re, rd := p.E.cl.ListV2(b), p.D.cl.ListV2(b)
		if re.Err != nil || rd.Err != nil {
			p.c.Inconclusive("transport error in final sweep")
			return
		}
		ve, vd := mkView(re, p.E, "xml"), mkView(rd, p.D, "xml")
		diffs, _ := compareViews(ve, vd)
		o := &op{kind: "final-state", desc: "ListObjectsV2 of " + b + " at the endpoint vs at the reference"}
		for _, d := range diffs {
			p.violation("final-state:stored:"+d.field, o, map[string]any{"proxy": "at the endpoint: " + d.p, "reference": d.d})
		}
		p.c.Distinct("final-state|E-vs-D")
	}
}

// resolve turns the placeholder at the end of a queued multipart scenario into its completion.
func (p *prog) resolve(o *op) *op {
	if o == nil || o.kind != "(deferred)" {
		return o
	}
	for _, u := range p.m.ups {
		if u.slot == o.slot && u.open {
			if p.r.Intn(8) == 0 {
				return p.genAbort(u)
			}
			return p.genComplete(u)
		}
	}
	return nil
}

func (p *prog) run(steps int) {
	defer p.close()
	restartAt := -1
	if p.r.Intn(2) == 0 {
		restartAt = steps/2 + p.r.Intn(steps/3+1)
	}
	// every program starts with a bucket
	p.step(p.genCreateBucket())
	for p.stepNo < steps && !p.abort {
		if p.stepNo == restartAt {
			restartAt = -1
			p.restartProxy()
			continue
		}
		var o *op
		if len(p.queue) > 0 && p.r.Intn(10) < 7 {
			o = p.queue[0]
			p.queue = p.queue[1:]
		} else {
			o = p.gen()
		}
		if o = p.resolve(o); o == nil {
			continue
		}
		p.step(o)
	}
	for len(p.queue) > 0 && !p.abort && p.stepNo < steps+6 {
		o := p.queue[0]
		p.queue = p.queue[1:]
		if o = p.resolve(o); o != nil {
			p.step(o)
		}
	}
	if restartAt >= 0 {
		p.restartProxy()
	}
	p.finalSweep()
	// an operation the proxy "does not offer" cannot also succeed in the same program
	for k, n := range p.n501 {
		if n > 0 && p.n2xx[k] > 0 {
			o := &op{kind: k, desc: p.first501[k]}
			p.violation(k+":not-implemented-only-sometimes", o, map[string]any{"proxy": fmt.Sprintf("501 on %d calls, 2xx on %d calls in the same program", n, p.n2xx[k]), "reference": "-"})
		}
	}
	if i, cr := p.envE.Dead(); cr != nil {
		_ = i
		p.c.Inconclusive("endpoint gateway died: " + cr.Message)
	}
	if _, cr := p.envD.Dead(); cr != nil {
		p.c.Inconclusive("reference gateway died: " + cr.Message)
	}
}

func Run(c *ev.Ctx) int {
	c.Assume("transparency is judged relative to a versitygw posix endpoint (E) and an identical reference gateway (D) on a separate empty store; AWS-only behaviour (SSE, storage classes) is out of reach offline")
	c.Assume("normalised before comparing: dates, Last-Modified (presence only), request ids, upload ids (by program slot), version ids (presence), owner display names, Server header, gateway addresses, error message text and Resource")
	c.Assume("an operation the proxy answers with 501 is 'not offered' and not judged; mutations the proxy does not offer are not sent to the reference")
	c.Assume("the proxy runs with AWS_EC2_METADATA_DISABLED=true and otherwise as documented; only when lane http-default observes that a proxy started that way cannot upload to a plain http endpoint at all (SDK default request checksums, a recorded finding) the programs run with AWS_REQUEST_CHECKSUM_CALCULATION=when_required in the proxy's environment")
	if w := os.Getenv("C18_PROBE"); w != "" {
		laneProbe(c, w)
		return 2
	}
	// lane http-default first: it tells whether the proxy as documented can upload at all
	proxyExtraEnv := []string{}
	if !laneHTTPDefault(c) {
		proxyExtraEnv = []string{"AWS_REQUEST_CHECKSUM_CALCULATION=when_required"}
	}
	c.Set("proxy_extra_env", proxyExtraEnv)
	n := c.Pick(30, 1500)
	rs := c.Rng("programs")
	type job struct {
		id   string
		seed int64
	}
	var jobs []job
	for i := 0; i < n; i++ {
		jobs = append(jobs, job{fmt.Sprintf("prog/%d", i), rs.Int63n(1 << 40)})
	}
	workers := 8
	var wg sync.WaitGroup
	wg.Add(1)
	go func() {
		defer wg.Done()
		laneSlow(c, proxyExtraEnv)
	}()
	wg.Add(1)
	go func() {
		defer wg.Done()
		laneRefusedOwnerChange(c, proxyExtraEnv)
	}()
	wg.Add(1)
	go func() {
		defer wg.Done()
		laneCreateAgain(c, proxyExtraEnv)
	}()
	wg.Add(1)
	go func() {
		defer wg.Done()
		laneWrongSecret(c, proxyExtraEnv)
	}()
	ch := make(chan job)
	for w := 0; w < workers; w++ {
		wg.Add(1)
		go func() {
			defer wg.Done()
			for j := range ch {
				p, err := newProg(c, j.id, j.seed, proxyExtraEnv)
				if err != nil {
					c.Inconclusive("gateway start: " + firstLine(err.Error()))
					continue
				}
				t0 := time.Now()
				p.run(24 + p.r.Intn(15))
				c.Add("programs", 1)
				if debug {
					fmt.Printf("## %s took %.1fs\n", j.id, time.Since(t0).Seconds())
				}
				if j.id == "prog/0" {
					c.Sample(map[string]any{"program": j.id, "steps": p.log})
				}
			}
		}()
	}
	for _, j := range jobs {
		if c.Want(j.id) {
			ch <- j
		}
	}
	close(ch)
	wg.Wait()
	notOfferedMu.Lock()
	var no, an []string
	for k := range notOffered {
		no = append(no, k)
	}
	for k := range answered {
		an = append(an, k)
	}
	notOfferedMu.Unlock()
	sort.Strings(no)
	sort.Strings(an)
	c.Set("not_offered", no)
	c.Set("operations_answered", an)
	notOfferedMu.Lock()
	c.Set("compared_by_operation", comparedBy)
	notOfferedMu.Unlock()
	return c.Finish("differential: the same generated program (<= 40 steps: buckets, objects in every upload encoding, ranges, copies, tagging, listings with paging chains, multipart incl. part copy, ACL/policy/ownership/versioning, account-scoped requests) runs against the proxy gateway and an identical posix gateway; every operation the proxy answers (not 501) is compared field by field after normalisation; stored effects are read back from the endpoint directly; settings must survive a proxy restart; distinct = (operation, argument class) pairs compared", 120)
}

func firstLine(s string) string {
	if i := strings.IndexByte(s, '\n'); i >= 0 {
		return s[:i]
	}
	return s
}
