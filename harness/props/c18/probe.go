package c18

import (
	"encoding/xml"
	"fmt"
	"os"
	"time"

	"verif/harness/internal/ev"
	"verif/harness/internal/s3c"
)

// laneProbe is a debugging aid (C18_PROBE=<name>): one fixed request sequence with the gateway logs printed.
func laneProbe(c *ev.Ctx, what string) {
	p, err := newProg(c, "probe", 7, []string{"AWS_REQUEST_CHECKSUM_CALCULATION=when_required", "VGW_S3_DEBUG=true"})
	if err != nil {
		fmt.Println("start:", err)
		return
	}
	defer p.close()
	b := "bk-alpha"
	p.step(&op{kind: "create-bucket", class: "new", desc: "PUT /" + b, mut: true, bucket: b, dom: "cfg", bucketEffect: true, req: bktReq("PUT", b, "", nil, nil), onAck: func() { p.m.addBucket(b) }})
	body := []byte("hello proxy, this is a body")
	switch what {
	case "trailer":
		st := &s3c.Stream{Mode: s3c.StreamUnsignTr, ChunkSizes: []int{8}, TrailerName: "x-amz-checksum-crc32"}
		p.step(&op{kind: "put", class: "x", desc: "PUT trailer", mut: true, bucket: b, keys: []string{b + "/a"}, dom: "obj",
			req: func(*side) *s3c.Req {
				return &s3c.Req{Method: "PUT", Path: s3c.ObjPath(b, "a"), Body: body, Stream: st}
			}})
	case "trailer10":
		for i := 0; i < 10; i++ {
			st := &s3c.Stream{Mode: s3c.StreamUnsignTr, ChunkSizes: []int{8}, TrailerName: "x-amz-checksum-crc32"}
			k := fmt.Sprintf("a%d", i)
			p.step(&op{kind: "put", class: "x", desc: "PUT trailer", mut: true, bucket: b, keys: []string{b + "/" + k}, dom: "obj",
				req: func(*side) *s3c.Req { return &s3c.Req{Method: "PUT", Path: s3c.ObjPath(b, k), Body: body, Stream: st} }})
		}
		for i := 0; i < 10; i++ {
			st := &s3c.Stream{Mode: s3c.StreamSignedTr, ChunkSizes: []int{8}, TrailerName: "x-amz-checksum-crc32"}
			k := fmt.Sprintf("b%d", i)
			p.step(&op{kind: "put", class: "x", desc: "PUT signed trailer", mut: true, bucket: b, keys: []string{b + "/" + k}, dom: "obj",
				req: func(*side) *s3c.Req { return &s3c.Req{Method: "PUT", Path: s3c.ObjPath(b, k), Body: body, Stream: st} }})
		}
		return
	case "wrongmd5":
		p.step(&op{kind: "put", class: "wrong-md5", desc: "signed put wrong md5", mut: true, bucket: b, keys: []string{b + "/w"}, dom: "obj",
			req: objReq("PUT", b, "w", "", s3c.H{{"Content-MD5", s3c.MD5B64([]byte("other"))}}, body)})
		p.step(&op{kind: "put", class: "wrong-checksum", desc: "signed put wrong crc32", mut: true, bucket: b, keys: []string{b + "/w2"}, dom: "obj",
			req: objReq("PUT", b, "w2", "", s3c.H{{"x-amz-checksum-crc32", s3c.Checksum("crc32", []byte("other"))}}, body)})
	case "dirobj":
		p.step(&op{kind: "put", class: "dirobj", desc: "signed put dir2/ with data", mut: true, bucket: b, keys: []string{b + "/dir2/"}, dom: "obj",
			req: objReq("PUT", b, "dir2/", "", nil, body)})
	case "attrs":
		p.step(&op{kind: "put", class: "x", desc: "PUT b", mut: true, bucket: b, keys: []string{b + "/b"}, dom: "obj", req: objReq("PUT", b, "b", "", nil, body)})
		p.step(&op{kind: "get-object-attributes", class: "existing", desc: "attrs", bucket: b, keys: []string{b + "/b"}, dom: "obj", body: "xml",
			req: objReq("GET", b, "b", "attributes=", s3c.H{{"x-amz-object-attributes", "ETag,ObjectSize"}}, nil)})
		p.step(&op{kind: "get-bucket-versioning", class: "existing", desc: "GET ?versioning", bucket: b, dom: "cfg", body: "xml", req: bktReq("GET", b, "versioning=", nil, nil)})
	case "slowmd5":
		big := p.partBody(true)
		u := &mup{slot: 1, bucket: b, key: "m", parts: map[int][]byte{}, open: true}
		p.m.ups = append(p.m.ups, u)
		p.step(&op{kind: "create-mpu", class: "plain", desc: "POST ?uploads", mut: true, bucket: b, dom: "up", slot: 1, body: "xml", req: objReq("POST", b, "m", "uploads=", nil, nil),
			after: func(s *side, r *s3c.Resp) {
				var x struct{ UploadId string }
				xml.Unmarshal(r.Body, &x)
				s.ups[1] = &upState{id: x.UploadId, etags: map[int]string{}}
			}})
		for _, sd := range []*side{p.D, p.P} {
			for _, st := range []*s3c.Stream{nil, {Mode: s3c.StreamSigned, ChunkSizes: []int{65536}}} {
				t0 := time.Now()
				r := sd.cl.Do(&s3c.Req{Method: "PUT", Path: s3c.ObjPath(b, "m"), Query: s3c.Q("partNumber", "1", "uploadId", sd.uploadID(1)), Body: big, Stream: st,
					Header: s3c.H{{"Content-MD5", s3c.MD5B64([]byte("other"))}}})
				fmt.Printf("%s stream=%v: %s in %.1fs\n", sd.name, st != nil, r.String(), time.Since(t0).Seconds())
			}
		}
		return
	case "badupload":
		u := &mup{slot: -1, bucket: b, key: "k"}
		for i := 0; i < 6; i++ {
			p.step(&op{kind: "upload-part", class: "unknown-upload", desc: "signed part to unknown upload", mut: true, bucket: b, dom: "up", slot: -1,
				req: p.upReq("PUT", u, func(*side) []string { return []string{"partNumber", "1"} }, nil, func(*side) []byte { return body }, "", nil)})
		}
		for i := 0; i < 6; i++ {
			p.step(&op{kind: "put", class: "missing-bucket", desc: "signed put to missing bucket", mut: true, bucket: "bk-beta", dom: "obj",
				req: objReq("PUT", "bk-beta", "k", "", nil, body)})
		}
	case "head403":
		p.step(&op{kind: "put", class: "x", desc: "PUT b", mut: true, bucket: b, keys: []string{b + "/b"}, dom: "obj", req: objReq("PUT", b, "b", "", nil, body)})
		p.step(&op{kind: "admin-list-buckets", class: "plain", desc: "PATCH /list-buckets", dom: "svc", body: "json",
			req: func(*side) *s3c.Req { return &s3c.Req{Method: "PATCH", Path: "/list-buckets"} }})
		p.step(&op{kind: "admin-change-bucket-owner", class: "x", desc: "change owner to alice", mut: true, bucket: b, dom: "cfg",
			req: func(*side) *s3c.Req {
				return &s3c.Req{Method: "PATCH", Path: "/change-bucket-owner", Query: s3c.Q("bucket", b, "owner", "alice")}
			}})
		p.step(&op{kind: "get-bucket-acl", class: "x", desc: "GET acl", bucket: b, dom: "cfg", body: "xml", req: bktReq("GET", b, "acl=", nil, nil)})
		p.step(&op{kind: "head", class: "x", desc: "HEAD b", bucket: b, keys: []string{b + "/b"}, dom: "obj", req: objReq("HEAD", b, "b", "", nil, nil)})
	}
	for _, s := range []*side{p.P, p.E} {
		lb, _ := os.ReadFile(s.g.LogPath)
		if len(lb) > 12000 {
			lb = lb[len(lb)-12000:]
		}
		fmt.Printf("======== log of %s\n%s\n", s.name, lb)
	}
}
