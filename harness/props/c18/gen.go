package c18

import (
	"encoding/xml"
	"fmt"
	"sort"
	"strconv"
	"strings"

	"verif/harness/internal/ev"
	"verif/harness/internal/s3c"
)

// ---- the generator's picture of the world (only used to aim operations) ---------

type mup struct {
	slot   int
	bucket string
	key    string
	parts  map[int][]byte
	open   bool
}

type vslot struct{ bucket, key, name string }

type model struct {
	buckets []string
	objs    map[string]map[string][]byte
	ups     []*mup
	nslot   int
	nver    int
	vslots  []vslot
	verOn   map[string]bool
	own     map[string]string // bucket -> object ownership setting as believed
}

func newModel() *model {
	return &model{objs: map[string]map[string][]byte{}, verOn: map[string]bool{}, own: map[string]string{}}
}

var bucketPool = []string{"bk-alpha", "bk-beta", "bk.gamma"}

var keyPool = []string{"a", "b", "b2", "dir/a", "dir/b", "dir/sub/c", "dir/sub/d", "x/y/z", "sp ace", "uni-é ü", "plus+sign",
	"pct%41", "q?mark&amp=1", "semi;colon,comma", "UPPER/lower", "tilde~star*", "dir2/", "quote'\"<>", "eq=col:on@at", "long-" + strings.Repeat("k", 150)}

func (m *model) hasBucket(b string) bool {
	for _, x := range m.buckets {
		if x == b {
			return true
		}
	}
	return false
}

func (m *model) addBucket(b string) {
	if !m.hasBucket(b) {
		m.buckets = append(m.buckets, b)
		sort.Strings(m.buckets)
		m.objs[b] = map[string][]byte{}
	}
}

func (m *model) delBucket(b string) {
	var nb []string
	for _, x := range m.buckets {
		if x != b {
			nb = append(nb, x)
		}
	}
	m.buckets = nb
	delete(m.objs, b)
	delete(m.verOn, b)
	for _, u := range m.ups {
		if u.bucket == b {
			u.open = false
		}
	}
}

func (m *model) keysOf(b string) []string {
	var ks []string
	for k := range m.objs[b] {
		ks = append(ks, k)
	}
	sort.Strings(ks)
	return ks
}

// ---- helpers -------------------------------------------------------------------

func (p *prog) pick(xs ...string) string { return xs[p.r.Intn(len(xs))] }

// bucket: mostly an existing bucket, now and then a missing one.
func (p *prog) bucket() (string, bool) {
	if len(p.m.buckets) == 0 || p.r.Intn(25) == 0 {
		for _, b := range bucketPool {
			if !p.m.hasBucket(b) {
				return b, false
			}
		}
		return "bk-never-created", false
	}
	return p.m.buckets[p.r.Intn(len(p.m.buckets))], true
}

func (p *prog) liveBucket() string {
	if len(p.m.buckets) == 0 {
		return "bk-never-created"
	}
	return p.m.buckets[p.r.Intn(len(p.m.buckets))]
}

// key: (key, believed to exist)
func (p *prog) key(b string, wantExisting int) (string, bool) {
	ks := p.m.keysOf(b)
	if len(ks) > 0 && p.r.Intn(100) < wantExisting {
		return ks[p.r.Intn(len(ks))], true
	}
	k := keyPool[p.r.Intn(len(keyPool))]
	_, ok := p.m.objs[b][k]
	return k, ok
}

func (p *prog) newBody() []byte {
	var n int
	switch p.r.Intn(12) {
	case 0:
		n = 0
	case 1:
		n = 1
	case 2:
		n = 70000 + p.r.Intn(1000)
	case 3:
		if p.r.Intn(3) == 0 {
			n = 1<<20 + p.r.Intn(4096)
		} else {
			n = 8192
		}
	default:
		n = 2 + p.r.Intn(2000)
	}
	b := make([]byte, n)
	p.r.Read(b)
	return b
}

func objReq(method, b, k, q string, hdr s3c.H, body []byte) reqFn {
	return func(*side) *s3c.Req {
		return &s3c.Req{Method: method, Path: s3c.ObjPath(b, k), Query: q, Header: append(s3c.H{}, hdr...), Body: body}
	}
}

func bktReq(method, b, q string, hdr s3c.H, body []byte) reqFn {
	return func(*side) *s3c.Req {
		h := append(s3c.H{}, hdr...)
		if body != nil && h.Get("Content-MD5") == "" {
			h = append(h, [2]string{"Content-MD5", s3c.MD5B64(body)})
		}
		return &s3c.Req{Method: method, Path: s3c.BucketPath(b), Query: q, Header: h, Body: body}
	}
}

func existClass(bOK, kOK bool) string {
	switch {
	case !bOK:
		return "missing-bucket"
	case !kOK:
		return "missing-key"
	}
	return "existing"
}

// ---- buckets -------------------------------------------------------------------

func (p *prog) genCreateBucket() *op {
	var b string
	for _, x := range bucketPool {
		if !p.m.hasBucket(x) {
			b = x
			break
		}
	}
	class := "new"
	if b == "" || p.r.Intn(8) == 0 {
		b = bucketPool[p.r.Intn(len(bucketPool))]
		if p.m.hasBucket(b) {
			class = "existing"
		}
	}
	var hdr s3c.H
	ownership := ""
	switch p.r.Intn(8) {
	case 0:
		ownership = p.pick("BucketOwnerPreferred", "ObjectWriter", "BucketOwnerEnforced")
		hdr = append(hdr, [2]string{"x-amz-object-ownership", ownership})
		class += "+ownership"
	case 1:
		ownership = "BucketOwnerPreferred"
		hdr = append(hdr, [2]string{"x-amz-object-ownership", ownership}, [2]string{"x-amz-acl", p.pick("public-read", "public-read-write", "private")})
		class += "+ownership+canned-acl"
	case 2:
		ownership = "BucketOwnerPreferred"
		hdr = append(hdr, [2]string{"x-amz-object-ownership", ownership}, [2]string{"x-amz-grant-read", p.pick("alice", "alice,bob", "id=alice")})
		class += "+ownership+grant"
	case 3:
		if p.versioned {
			hdr = append(hdr, [2]string{"x-amz-bucket-object-lock-enabled", "true"})
			class += "+object-lock"
		}
	}
	lock := strings.Contains(class, "object-lock")
	return &op{kind: "create-bucket", class: class, desc: fmt.Sprintf("PUT /%s %v", b, hdr), mut: true, bucket: b, dom: "cfg", bucketEffect: true,
		req: bktReq("PUT", b, "", hdr, nil),
		onAck: func() {
			p.m.addBucket(b)
			p.m.own[b] = ownership
			if lock {
				p.m.verOn[b] = true
			}
		},
		onPAck: func(p *prog) {
			for _, s := range []string{"policy:", "acl:", "ownership:"} {
				delete(p.exp, s+b)
			}
			if ownership != "" {
				p.exp["ownership:"+b] = ownership
			}
		}}
}

func (p *prog) genDeleteBucket() *op {
	b, ok := p.bucket()
	class := "missing-bucket"
	if ok {
		class = "empty"
		if len(p.m.objs[b]) > 0 {
			class = "not-empty"
		}
	}
	return &op{kind: "delete-bucket", class: class, desc: "DELETE /" + b, mut: true, bucket: b, dom: "list", bucketEffect: true,
		req:   bktReq("DELETE", b, "", nil, nil),
		onAck: func() { p.m.delBucket(b) },
		onPAck: func(p *prog) {
			for _, s := range []string{"policy:", "acl:", "ownership:"} {
				delete(p.exp, s+b)
			}
		}}
}

func (p *prog) genHeadBucket() *op {
	b, ok := p.bucket()
	return &op{kind: "head-bucket", class: existClass(ok, true), desc: "HEAD /" + b, bucket: b, dom: "cfg", req: bktReq("HEAD", b, "", nil, nil)}
}

func (p *prog) genListBuckets() *op {
	q, class := "", "plain"
	switch p.r.Intn(4) {
	case 0:
		q, class = s3c.Q("prefix", "bk-"), "prefix"
	case 1:
		q, class = s3c.Q("max-buckets", "1"), "max-buckets"
	}
	o := &op{kind: "list-buckets", class: class, desc: "GET /?" + q, dom: "svc", body: "xml",
		req: func(*side) *s3c.Req { return &s3c.Req{Method: "GET", Path: "/", Query: q} }}
	if p.r.Intn(4) == 0 {
		o.as = p.pick("alice", "bob")
		o.class += "+as-user"
		o.ktag = "[as-user]"
	}
	if class == "max-buckets" {
		o.next = func(s *side, r *s3c.Resp) reqFn {
			var la struct{ ContinuationToken string }
			xml.Unmarshal(r.Body, &la)
			if la.ContinuationToken == "" {
				return nil
			}
			tok := la.ContinuationToken
			return func(*side) *s3c.Req {
				return &s3c.Req{Method: "GET", Path: "/", Query: s3c.Q("max-buckets", "1", "continuation-token", tok)}
			}
		}
	}
	return o
}

// ---- objects -------------------------------------------------------------------

var metaKeys = []string{"color", "owner-team", "x1", "camelcase", "num-42"}
var metaVals = []string{"blue", "a b c", "v=1;w=2", "café", "0", "UPPER lower", strings.Repeat("m", 300)}

// uploadDecor adds the body encoding and the descriptive headers of an upload (PutObject / UploadPart).
func (p *prog) uploadDecor(body []byte, partOnly bool) (hdr s3c.H, ph string, st *s3c.Stream, class string, eclass string) {
	var feats []string
	mode := "signed"
	switch p.r.Intn(12) {
	case 5:
		mode, ph = "unsigned", s3c.Unsigned
	case 6, 7:
		mode = "chunked-signed"
		st = &s3c.Stream{Mode: s3c.StreamSigned, ChunkSizes: []int{p.pickInt(1, 100, 8192, 65536)}}
	case 8, 9:
		algo := s3c.Algos[p.r.Intn(len(s3c.Algos))]
		mode = "chunked-signed-trailer"
		st = &s3c.Stream{Mode: s3c.StreamSignedTr, ChunkSizes: []int{p.pickInt(64, 8192, 65536)}, TrailerName: "x-amz-checksum-" + algo}
		feats = append(feats, "trailer-"+algo)
	case 10:
		algo := s3c.Algos[p.r.Intn(len(s3c.Algos))]
		mode = "chunked-unsigned-trailer"
		st = &s3c.Stream{Mode: s3c.StreamUnsignTr, ChunkSizes: []int{p.pickInt(64, 8192, 65536)}, TrailerName: "x-amz-checksum-" + algo}
		feats = append(feats, "trailer-"+algo)
	}
	if st != nil && len(body)/st.ChunkSizes[0] > 2000 {
		// keep the number of chunks (one HMAC each, on both ends) small for large bodies
		st.ChunkSizes = []int{len(body)/1000 + 1}
	}
	eclass = "valid"
	if !partOnly {
		if p.r.Intn(2) == 0 {
			n := 1 + p.r.Intn(3)
			for i := 0; i < n; i++ {
				hdr.Set("x-amz-meta-"+metaKeys[p.r.Intn(len(metaKeys))], metaVals[p.r.Intn(len(metaVals))])
			}
			feats = append(feats, "meta")
		}
		if p.r.Intn(2) == 0 {
			hdr.Set("Content-Type", p.pick("text/plain", "application/json; charset=utf-8", "image/png", "x-custom/type"))
			feats = append(feats, "content-type")
		}
		if p.r.Intn(5) == 0 {
			v := p.pick("gzip", "identity", "br")
			if st != nil {
				v = "aws-chunked," + v
			}
			hdr.Set("Content-Encoding", v)
			feats = append(feats, "content-encoding")
		}
		if p.r.Intn(5) == 0 {
			hdr.Set("Content-Disposition", p.pick(`attachment; filename="f.txt"`, "inline"))
			feats = append(feats, "content-disposition")
		}
		if p.r.Intn(6) == 0 {
			hdr.Set("Content-Language", p.pick("en-US", "de, fr"))
			feats = append(feats, "content-language")
		}
		if p.r.Intn(5) == 0 {
			hdr.Set("Cache-Control", p.pick("no-cache", "max-age=3600, public"))
			feats = append(feats, "cache-control")
		}
		if p.r.Intn(5) == 0 {
			if p.r.Intn(2) == 0 {
				hdr.Set("Expires", "Wed, 21 Oct 2099 07:28:00 GMT")
				feats = append(feats, "expires-rfc1123")
			} else {
				hdr.Set("Expires", p.pick("2099-10-21T07:28:00Z", "never", "Wednesday, 21-Oct-99 07:28:00 GMT"))
				feats = append(feats, "expires-other-format")
			}
		}
		if p.r.Intn(4) == 0 {
			hdr.Set("x-amz-tagging", p.pick("k1=v1", "k1=v1&k2=v%202", "project=x%2By&env=prod%3D1", "empty="))
			feats = append(feats, "tagging-header")
		}
		if p.r.Intn(12) == 0 {
			hdr.Set("If-None-Match", "*")
			feats = append(feats, "if-none-match")
		}
	}
	if st == nil && p.r.Intn(4) == 0 {
		algo := s3c.Algos[p.r.Intn(len(s3c.Algos))]
		v := s3c.Checksum(algo, body)
		if p.r.Intn(5) == 0 {
			v = s3c.Checksum(algo, append([]byte("x"), body...))
			eclass = "wrong-checksum"
			feats = append(feats, "wrong-checksum-"+algo)
		} else {
			feats = append(feats, "checksum-"+algo)
		}
		hdr.Set("x-amz-checksum-"+algo, v)
	}
	if p.r.Intn(6) == 0 {
		if p.r.Intn(4) == 0 {
			hdr.Set("Content-MD5", s3c.MD5B64(append([]byte("y"), body...)))
			eclass = "wrong-md5"
			feats = append(feats, "wrong-md5")
		} else {
			hdr.Set("Content-MD5", s3c.MD5B64(body))
			feats = append(feats, "md5")
		}
	}
	sort.Strings(feats)
	class = mode
	if len(feats) > 0 {
		class += "+" + strings.Join(feats, "+")
	}
	return
}

func (p *prog) pickInt(xs ...int) int { return xs[p.r.Intn(len(xs))] }

func (p *prog) genPut() *op {
	b, bOK := p.bucket()
	k, _ := p.key(b, 25)
	body := p.newBody()
	if strings.HasSuffix(k, "/") && p.r.Intn(4) > 0 {
		body = []byte{}
	}
	hdr, ph, st, class, eclass := p.uploadDecor(body, false)
	if !bOK {
		eclass = "missing-bucket"
	} else if strings.HasSuffix(k, "/") && len(body) > 0 {
		eclass = "directory-object-with-data"
	}
	o := &op{kind: "put", class: class, desc: fmt.Sprintf("PUT /%s/%s len=%d %v", b, k, len(body), hdr), mut: true, bucket: b, keys: []string{b + "/" + k}, dom: "obj"}
	o.req = func(*side) *s3c.Req {
		return &s3c.Req{Method: "PUT", Path: s3c.ObjPath(b, k), Header: append(s3c.H{}, hdr...), Body: body, PayloadHash: ph, Stream: st}
	}
	o.eclass = eclass
	if st != nil && st.Mode == s3c.StreamUnsignTr {
		o.tag = "[unsigned-trailer]"
	} else if len(body) >= 1<<20 {
		o.tag = "[large-body]"
	}
	if p.r.Intn(12) == 0 {
		o.as = p.pick("alice", "bob")
		o.class = "as-user"
	} else if eclass == "" && p.r.Intn(14) == 0 {
		// signed with a wrong secret: refused on both sides, and stored on neither
		o.as = p.pick("alice", "bob") + "+wrong-secret"
		o.class = "wrong-secret"
		o.eclass = "wrong-secret"
	}
	if p.m.verOn[b] {
		p.m.nver++
		name := fmt.Sprintf("v%d", p.m.nver)
		o.after = func(s *side, r *s3c.Resp) {
			if v := r.Header.Get("x-amz-version-id"); v != "" {
				s.vers[name] = v
			}
		}
		p.m.vslots = append(p.m.vslots, vslot{b, k, name})
	}
	o.onAck = func() {
		if p.m.objs[b] != nil {
			p.m.objs[b][k] = body
		}
	}
	return o
}

func etagOf(body []byte) string { return `"` + s3c.MD5Hex(body) + `"` }

func (p *prog) genGet(head bool) *op {
	b, bOK := p.bucket()
	k, kOK := p.key(b, 85)
	body := p.m.objs[b][k]
	n := len(body)
	var hdr s3c.H
	q := ""
	class := "plain"
	switch p.r.Intn(16) {
	case 0, 1, 2, 3, 4, 5:
		var rg string
		switch p.r.Intn(10) {
		case 0:
			rg, class = "bytes=0-0", "range:first-byte"
		case 1, 2:
			a := p.r.Intn(n + 1)
			bb := a + p.r.Intn(n-a+1)
			rg, class = fmt.Sprintf("bytes=%d-%d", a, bb), "range:a-b"
		case 3:
			rg, class = fmt.Sprintf("bytes=%d-", p.r.Intn(n+1)), "range:a-"
		case 4:
			rg, class = fmt.Sprintf("bytes=-%d", 1+p.r.Intn(n+2)), "range:suffix"
		case 5:
			rg, class = fmt.Sprintf("bytes=%d-", n+p.r.Intn(3)), "range:beyond-end"
		case 6:
			rg, class = fmt.Sprintf("bytes=%d-%d", n/2, n+1000), "range:clipped"
		case 7:
			rg, class = "bytes=0-1,3-4", "range:multi"
		case 8:
			rg, class = p.pick("bytes=abc", "bytes=5-2", "bits=0-1", "bytes=", "0-5"), "range:malformed"
		default:
			rg, class = fmt.Sprintf("bytes=%d-%d", n-1, n-1), "range:last-byte"
		}
		hdr.Set("Range", rg)
	case 6:
		hdr.Set("If-Match", etagOf(body))
		class = "if-match:same"
	case 7:
		hdr.Set("If-Match", `"00000000000000000000000000000000"`)
		class = "if-match:other"
	case 8:
		hdr.Set("If-None-Match", etagOf(body))
		class = "if-none-match:same"
	case 9:
		if p.r.Intn(2) == 0 {
			hdr.Set("If-Modified-Since", "Wed, 21 Oct 2099 07:28:00 GMT")
			class = "if-modified-since:future"
		} else {
			hdr.Set("If-Unmodified-Since", "Sat, 01 Jan 2000 00:00:00 GMT")
			class = "if-unmodified-since:past"
		}
	case 10:
		q = s3c.Q("partNumber", p.pick("1", "2"))
		class = "part-number"
	case 11:
		if !head {
			q = s3c.Q("response-content-type", "text/override", "response-cache-control", "no-store", "response-content-disposition", "attachment; filename=o.bin")
			class = "response-overrides"
		}
	case 12:
		hdr.Set("x-amz-checksum-mode", "ENABLED")
		class = "checksum-mode"
	}
	kind := "get"
	method := "GET"
	if head {
		kind, method = "head", "HEAD"
	}
	o := &op{kind: kind, class: class, desc: fmt.Sprintf("%s /%s/%s?%s %v", method, b, k, q, hdr), bucket: b, keys: []string{b + "/" + k}, dom: "obj", body: "raw"}
	if !bOK || !kOK {
		o.eclass = existClass(bOK, kOK)
		o.class = o.eclass
	}
	// a version of the key
	if len(p.m.vslots) > 0 && p.r.Intn(4) == 0 && q == "" {
		vs := p.m.vslots[p.r.Intn(len(p.m.vslots))]
		b, k = vs.bucket, vs.key
		o.bucket, o.keys = b, []string{b + "/" + k}
		o.class = "version-id"
		o.eclass = "version-id"
		o.desc = fmt.Sprintf("%s /%s/%s?versionId=<%s> %v", method, b, k, vs.name, hdr)
		o.skip = func(p *prog) bool { return p.P.vers[vs.name] == "" || p.D.vers[vs.name] == "" }
		null := p.r.Intn(3) == 0
		if null {
			// the literal id "null": the version written before versioning was enabled (or while it was suspended)
			o.class, o.eclass = "version-id-null", "version-id-null"
			o.desc = fmt.Sprintf("%s /%s/%s?versionId=null %v", method, b, k, hdr)
			o.skip = nil
		}
		o.req = func(s *side) *s3c.Req {
			v := s.vers[vs.name]
			if s == p.E {
				v = p.P.vers[vs.name] // the endpoint's version ids are the ones the proxy handed out
			}
			if v == "" {
				v = "no-such-version"
			}
			if null {
				v = "null"
			}
			return &s3c.Req{Method: method, Path: s3c.ObjPath(b, k), Query: s3c.Q("versionId", v), Header: append(s3c.H{}, hdr...)}
		}
		return o
	}
	o.req = objReq(method, b, k, q, hdr, nil)
	if p.r.Intn(12) == 0 {
		o.as = p.pick("alice", "bob")
		o.class = "as-user:" + existClass(bOK, kOK)
		o.eclass = o.class
	}
	return o
}

func (p *prog) genDelete() *op {
	b, bOK := p.bucket()
	k, kOK := p.key(b, 75)
	o := &op{kind: "delete", class: existClass(bOK, kOK), desc: fmt.Sprintf("DELETE /%s/%s", b, k), mut: true, bucket: b, keys: []string{b + "/" + k}, dom: "obj",
		req: objReq("DELETE", b, k, "", nil, nil), onAck: func() { delete(p.m.objs[b], k) }}
	if p.m.verOn[b] {
		o.class += "+versioned"
	}
	if len(p.m.vslots) > 0 && p.r.Intn(4) == 0 {
		// delete one version: an id the gateway handed out, or the literal "null"
		vs := p.m.vslots[p.r.Intn(len(p.m.vslots))]
		b, k = vs.bucket, vs.key
		null := p.r.Intn(2) == 0
		o = &op{kind: "delete", class: "version-id", eclass: "version-id", desc: fmt.Sprintf("DELETE /%s/%s?versionId=<%s>", b, k, vs.name), mut: true, bucket: b, keys: []string{b + "/" + k}, dom: "obj"}
		if null {
			o.class, o.eclass = "version-id-null", "version-id-null"
			o.desc = fmt.Sprintf("DELETE /%s/%s?versionId=null", b, k)
		} else {
			o.skip = func(p *prog) bool { return p.P.vers[vs.name] == "" || p.D.vers[vs.name] == "" }
		}
		o.req = func(s *side) *s3c.Req {
			v := s.vers[vs.name]
			if s == p.E {
				v = p.P.vers[vs.name]
			}
			if v == "" {
				v = "no-such-version"
			}
			if null {
				v = "null"
			}
			return &s3c.Req{Method: "DELETE", Path: s3c.ObjPath(b, k), Query: s3c.Q("versionId", v)}
		}
		return o
	}
	if p.r.Intn(12) == 0 {
		o.as = p.pick("alice", "bob")
		o.class = "as-user"
	}
	return o
}

func (p *prog) genDeleteObjects() *op {
	b, bOK := p.bucket()
	n := 1 + p.r.Intn(4)
	var keys, refs []string
	seen := map[string]bool{}
	nMissing := 0
	for i := 0; i < n; i++ {
		k, ok := p.key(b, 70)
		if seen[k] {
			continue
		}
		seen[k] = true
		if !ok {
			nMissing++
		}
		keys = append(keys, k)
		refs = append(refs, b+"/"+k)
	}
	quiet := p.r.Intn(3) == 0
	var sb strings.Builder
	sb.WriteString(`<Delete xmlns="http://s3.amazonaws.com/doc/2006-03-01/">`)
	for _, k := range keys {
		sb.WriteString("<Object><Key>" + s3c.XMLEsc(k) + "</Key></Object>")
	}
	if quiet {
		sb.WriteString("<Quiet>true</Quiet>")
	}
	sb.WriteString("</Delete>")
	body := []byte(sb.String())
	class := fmt.Sprintf("quiet=%v", quiet)
	if nMissing > 0 {
		class += "+missing-keys"
	}
	if !bOK {
		class = "missing-bucket"
	}
	return &op{kind: "delete-objects", class: class, desc: fmt.Sprintf("POST /%s?delete %q quiet=%v", b, keys, quiet), mut: true, bucket: b, keys: refs, dom: "obj", body: "xml",
		req: bktReq("POST", b, "delete=", nil, body),
		onAck: func() {
			for _, k := range keys {
				delete(p.m.objs[b], k)
			}
		}}
}

func (p *prog) genCopy() *op {
	sb, sbOK := p.bucket()
	sk, skOK := p.key(sb, 90)
	db := p.liveBucket()
	dk, _ := p.key(db, 20)
	var hdr s3c.H
	class := "directive-default"
	switch p.r.Intn(9) {
	case 4:
		// REPLACE without a tag set: the copy has no tags
		hdr.Set("x-amz-tagging-directive", "REPLACE")
		class = "tagging-directive-replace-bare"
	case 5:
		hdr.Set("x-amz-tagging-directive", "REPLACE")
		hdr.Set("x-amz-tagging", "")
		class = "tagging-directive-replace-empty"
	case 6:
		hdr.Set("x-amz-tagging-directive", "COPY")
		hdr.Set("x-amz-tagging", "ignored=yes")
		class = "tagging-directive-copy"
	case 0:
		hdr.Set("x-amz-metadata-directive", "COPY")
		hdr.Set("x-amz-meta-ignored", "must-not-appear")
		class = "metadata-directive-copy"
	case 1, 2:
		hdr.Set("x-amz-metadata-directive", "REPLACE")
		hdr.Set("x-amz-meta-"+metaKeys[p.r.Intn(len(metaKeys))], metaVals[p.r.Intn(len(metaVals)-1)])
		hdr.Set("Content-Type", p.pick("text/replaced", "application/x-new"))
		if p.r.Intn(2) == 0 {
			hdr.Set("Cache-Control", "max-age=1")
			hdr.Set("Content-Disposition", "inline")
		}
		class = "metadata-directive-replace"
	case 3:
		hdr.Set("x-amz-tagging-directive", "REPLACE")
		hdr.Set("x-amz-tagging", "copied=yes&n=2")
		class = "tagging-directive-replace"
	}
	if sb == db && sk == dk {
		if class == "directive-default" || class == "metadata-directive-copy" {
			class = "onto-itself"
		} else {
			class += "+onto-itself"
		}
	}
	switch p.r.Intn(8) {
	case 0:
		hdr.Set("x-amz-copy-source-if-match", etagOf(p.m.objs[sb][sk]))
		class += "+if-match:same"
	case 1:
		hdr.Set("x-amz-copy-source-if-none-match", etagOf(p.m.objs[sb][sk]))
		class += "+if-none-match:same"
	}
	src := s3c.URIEncode(sb+"/"+sk, false)
	if p.r.Intn(3) == 0 {
		src = "/" + src
	}
	hdr.Set("X-Amz-Copy-Source", src)
	body := p.m.objs[sb][sk]
	o := &op{kind: "copy", class: class, desc: fmt.Sprintf("PUT /%s/%s %v", db, dk, hdr), mut: true, bucket: db, keys: []string{db + "/" + dk}, dom: "obj", body: "xml",
		req: objReq("PUT", db, dk, "", hdr, nil),
		onAck: func() {
			if p.m.objs[db] != nil {
				p.m.objs[db][dk] = body
			}
		}}
	if strings.HasPrefix(class, "metadata-directive-replace") {
		o.storedSig = "metadata-directive-replace"
	}
	if !sbOK || !skOK {
		o.eclass = "source-" + existClass(sbOK, skOK)
		o.class = o.eclass
	} else if strings.ContainsAny(sk, "%+?") {
		o.eclass = "source-key-with-url-special-character"
	}
	o.inherit = []string{sb + "/" + sk}
	return o
}

func (p *prog) tagSet() map[string]string {
	m := map[string]string{}
	n := p.r.Intn(5)
	for i := 0; i < n; i++ {
		m[p.pick("k1", "k2", "project", "a b", "k+=._:/@-", "Z")] = p.pick("v1", "", "x y", "v+=._:/@-", "café", "1")
	}
	return m
}

func (p *prog) genObjTagging() *op {
	b, bOK := p.bucket()
	k, kOK := p.key(b, 85)
	ec := existClass(bOK, kOK)
	ref := []string{b + "/" + k}
	switch p.r.Intn(5) {
	case 0, 1:
		t := p.tagSet()
		body := s3c.TaggingXML(t)
		return &op{kind: "put-object-tagging", class: fmt.Sprintf("%s:%d-tags", ec, len(t)), eclass: ec, desc: fmt.Sprintf("PUT /%s/%s?tagging %v", b, k, t), mut: true, bucket: b, keys: ref, dom: "obj",
			req: func(*side) *s3c.Req {
				return &s3c.Req{Method: "PUT", Path: s3c.ObjPath(b, k), Query: "tagging=", Body: body, Header: s3c.H{{"Content-MD5", s3c.MD5B64(body)}}}
			}}
	case 2:
		return &op{kind: "delete-object-tagging", class: ec, desc: fmt.Sprintf("DELETE /%s/%s?tagging", b, k), mut: true, bucket: b, keys: ref, dom: "obj",
			req: objReq("DELETE", b, k, "tagging=", nil, nil)}
	}
	return &op{kind: "get-object-tagging", class: ec, desc: fmt.Sprintf("GET /%s/%s?tagging", b, k), bucket: b, keys: ref, dom: "obj", body: "xml",
		req: objReq("GET", b, k, "tagging=", nil, nil)}
}

func (p *prog) genBucketTagging() *op {
	b, bOK := p.bucket()
	ec := existClass(bOK, true)
	switch p.r.Intn(4) {
	case 0, 1:
		t := p.tagSet()
		return &op{kind: "put-bucket-tagging", class: ec, desc: fmt.Sprintf("PUT /%s?tagging %v", b, t), mut: true, bucket: b, dom: "cfg", req: bktReq("PUT", b, "tagging=", nil, s3c.TaggingXML(t))}
	case 2:
		return &op{kind: "delete-bucket-tagging", class: ec, desc: "DELETE /" + b + "?tagging", mut: true, bucket: b, dom: "cfg", req: bktReq("DELETE", b, "tagging=", nil, nil)}
	}
	return &op{kind: "get-bucket-tagging", class: ec, desc: "GET /" + b + "?tagging", bucket: b, dom: "cfg", body: "xml", req: bktReq("GET", b, "tagging=", nil, nil)}
}

func (p *prog) genAttributes() *op {
	b, bOK := p.bucket()
	k, kOK := p.key(b, 85)
	attrs := p.pick("ETag,ObjectSize", "ETag,ObjectSize,StorageClass,Checksum,ObjectParts", "ObjectSize")
	return &op{kind: "get-object-attributes", class: existClass(bOK, kOK), desc: fmt.Sprintf("GET /%s/%s?attributes %s", b, k, attrs), bucket: b, keys: []string{b + "/" + k}, dom: "obj", body: "xml",
		req: objReq("GET", b, k, "attributes=", s3c.H{{"x-amz-object-attributes", attrs}}, nil)}
}

func (p *prog) genObjectACL() *op {
	b, bOK := p.bucket()
	k, kOK := p.key(b, 85)
	if p.r.Intn(2) == 0 {
		return &op{kind: "get-object-acl", class: existClass(bOK, kOK), desc: fmt.Sprintf("GET /%s/%s?acl", b, k), bucket: b, keys: []string{b + "/" + k}, dom: "obj", body: "xml",
			req: objReq("GET", b, k, "acl=", nil, nil)}
	}
	return &op{kind: "put-object-acl", class: existClass(bOK, kOK), desc: fmt.Sprintf("PUT /%s/%s?acl public-read", b, k), mut: true, bucket: b, keys: []string{b + "/" + k}, dom: "obj",
		req: objReq("PUT", b, k, "acl=", s3c.H{{"x-amz-acl", "public-read"}}, nil)}
}

// ---- listings ------------------------------------------------------------------

func (p *prog) listOp(kind, b, prefix, delim, maxKeys, start string, chain bool, class string) *op {
	base := []string{}
	if kind == "list-v2" {
		base = append(base, "list-type", "2")
	}
	if kind == "list-versions" {
		base = append(base, "versions", "\x00")
	}
	if prefix != "" {
		base = append(base, "prefix", prefix)
	}
	if delim != "" {
		base = append(base, "delimiter", delim)
	}
	if maxKeys != "" {
		base = append(base, "max-keys", maxKeys)
	}
	if strings.Contains(class, "encoding-url") {
		base = append(base, "encoding-type", "url")
	}
	if strings.Contains(class, "fetch-owner") {
		base = append(base, "fetch-owner", "true")
	}
	first := append([]string{}, base...)
	if start != "" {
		switch kind {
		case "list-v2":
			first = append(first, "start-after", start)
		case "list-v1":
			first = append(first, "marker", start)
		case "list-versions":
			first = append(first, "key-marker", start)
		}
	}
	o := &op{kind: kind, class: class, desc: fmt.Sprintf("GET /%s?%s", b, s3c.Q(first...)), bucket: b, dom: "list", body: "xml",
		req: func(*side) *s3c.Req { return &s3c.Req{Method: "GET", Path: s3c.BucketPath(b), Query: s3c.Q(first...)} }}
	if chain && kind != "list-versions" {
		o.next = func(s *side, r *s3c.Resp) reqFn {
			l, err := s3c.ParseList(r.Body)
			if err != nil || !l.IsTruncated {
				return nil
			}
			q := append([]string{}, base...)
			if kind == "list-v2" {
				if l.NextContinuationToken == "" {
					return nil
				}
				q = append(q, "continuation-token", l.NextContinuationToken)
			} else {
				m := l.NextMarker
				if m == "" && len(l.Contents) > 0 {
					m = l.Contents[len(l.Contents)-1].Key
				}
				if m == "" {
					return nil
				}
				q = append(q, "marker", m)
			}
			return func(*side) *s3c.Req { return &s3c.Req{Method: "GET", Path: s3c.BucketPath(b), Query: s3c.Q(q...)} }
		}
	}
	return o
}

func (p *prog) genList() *op {
	b, bOK := p.bucket()
	kind := p.pick("list-v2", "list-v2", "list-v1")
	if p.versioned && p.r.Intn(5) == 0 {
		kind = "list-versions"
	}
	prefix := p.pick("", "", "dir/", "dir/s", "b", "zzz", "x/y/", "UPP")
	delim := p.pick("", "/", "/", "i")
	maxKeys := p.pick("", "", "1", "2", "3", "1000", "0")
	start := ""
	if p.r.Intn(4) == 0 {
		start = p.pick("b", "dir/a", "dir/sub", "dir0", "zz", "dir/")
	}
	var cl []string
	if prefix != "" {
		cl = append(cl, "prefix")
	}
	if delim != "" {
		cl = append(cl, "delimiter")
	}
	if maxKeys != "" {
		cl = append(cl, "max-keys="+maxKeys)
	}
	if start != "" {
		cl = append(cl, "start")
	}
	if kind != "list-versions" && p.r.Intn(6) == 0 {
		cl = append(cl, "encoding-url")
	}
	if kind == "list-v2" && p.r.Intn(6) == 0 {
		cl = append(cl, "fetch-owner")
	}
	class := strings.Join(cl, "+")
	if class == "" {
		class = "plain"
	}
	if !bOK {
		class = "missing-bucket"
	}
	o := p.listOp(kind, b, prefix, delim, maxKeys, start, maxKeys != "" && maxKeys != "0", class)
	if p.r.Intn(12) == 0 {
		o.as = p.pick("alice", "bob")
		o.class = "as-user"
	}
	return o
}

// ---- multipart -----------------------------------------------------------------

const bigPart = 5<<20 + 17

func (p *prog) partBody(big bool) []byte {
	n := 1 + p.r.Intn(3000)
	if big {
		n = bigPart
	}
	b := make([]byte, n)
	// cheap but position dependent content
	seed := byte(p.r.Intn(256))
	for i := range b {
		b[i] = seed + byte(i) + byte(i>>8)*7 + byte(i>>16)*13
	}
	return b
}

func (p *prog) genCreateMPU() (*op, *mup) {
	b, bOK := p.bucket()
	return p.genCreateMPUIn(b, bOK, nil)
}

func (p *prog) genCreateMPUIn(b string, bOK bool, avoid map[string]bool) (*op, *mup) {
	k, _ := p.key(b, 20)
	busy := func(k string) bool {
		if avoid[k] || p.mpuKeys[b+"/"+k] {
			// also keys of uploads that were generated but are still queued (not acknowledged yet)
			return true
		}
		// upload ids are random: two open uploads of one key list in an order that legitimately differs between gateways
		for _, u := range p.m.ups {
			if u.open && u.bucket == b && u.key == k {
				return true
			}
		}
		return false
	}
	for i := 0; (strings.HasSuffix(k, "/") || busy(k)) && i < 50; i++ {
		k, _ = p.key(b, 20)
	}
	if strings.HasSuffix(k, "/") || busy(k) {
		k = fmt.Sprintf("mpu-%d", p.m.nslot)
	}
	p.m.nslot++
	if p.mpuKeys == nil {
		p.mpuKeys = map[string]bool{}
	}
	p.mpuKeys[b+"/"+k] = true
	u := &mup{slot: p.m.nslot, bucket: b, key: k, parts: map[int][]byte{}}
	var hdr s3c.H
	class := "plain"
	if p.r.Intn(2) == 0 {
		hdr.Set("x-amz-meta-"+metaKeys[p.r.Intn(len(metaKeys))], metaVals[p.r.Intn(len(metaVals)-1)])
		hdr.Set("Content-Type", "application/x-mpu")
		class = "meta+content-type"
		if p.r.Intn(2) == 0 {
			hdr.Set("Content-Encoding", "gzip")
			hdr.Set("Cache-Control", "no-cache")
			hdr.Set("Content-Disposition", "inline")
			hdr.Set("Content-Language", "en")
			class += "+content-headers"
		}
		if p.r.Intn(3) == 0 {
			hdr.Set("x-amz-tagging", "mp=1&t=two")
			class += "+tagging-header"
		}
		if p.r.Intn(4) == 0 {
			hdr.Set("Expires", "Wed, 21 Oct 2099 07:28:00 GMT")
			class += "+expires"
		}
	}
	if p.r.Intn(6) == 0 {
		hdr.Set("x-amz-checksum-algorithm", p.pick("CRC32", "SHA256", "CRC64NVME"))
		class += "+checksum-algorithm"
	}
	if !bOK {
		class = "missing-bucket"
	}
	o := &op{kind: "create-mpu", class: class, desc: fmt.Sprintf("POST /%s/%s?uploads -> U%d %v", b, k, u.slot, hdr), mut: true, bucket: b, dom: "up", slot: u.slot, body: "xml",
		req: objReq("POST", b, k, "uploads=", hdr, nil),
		after: func(s *side, r *s3c.Resp) {
			if okResp(r) {
				var x struct{ UploadId string }
				xml.Unmarshal(r.Body, &x)
				if x.UploadId != "" {
					s.ups[u.slot] = &upState{id: x.UploadId, etags: map[int]string{}}
					s.slot[x.UploadId] = fmt.Sprintf("<U%d>", u.slot)
				}
			}
		},
		onAck: func() { u.open = true; p.m.ups = append(p.m.ups, u) }}
	return o, u
}

func (p *prog) openUpload() *mup {
	var open []*mup
	for _, u := range p.m.ups {
		if u.open {
			open = append(open, u)
		}
	}
	if len(open) == 0 {
		return nil
	}
	return open[p.r.Intn(len(open))]
}

func (p *prog) upReq(method string, u *mup, extra func(s *side) []string, hdr s3c.H, body func(s *side) []byte, ph string, st *s3c.Stream) reqFn {
	return func(s *side) *s3c.Req {
		q := []string{}
		if extra != nil {
			q = append(q, extra(s)...)
		}
		q = append(q, "uploadId", s.uploadID(u.slot))
		var b []byte
		if body != nil {
			b = body(s)
		}
		return &s3c.Req{Method: method, Path: s3c.ObjPath(u.bucket, u.key), Query: s3c.Q(q...), Header: append(s3c.H{}, hdr...), Body: b, PayloadHash: ph, Stream: st}
	}
}

func (p *prog) genUploadPart(u *mup, n int, big bool) *op {
	body := p.partBody(big)
	hdr, ph, st, class, eclass := p.uploadDecor(body, true)
	if big {
		class += "+5MiB"
	}
	pn := strconv.Itoa(n)
	tag := ""
	if st != nil && st.Mode == s3c.StreamUnsignTr {
		tag = "[unsigned-trailer]"
	} else if len(body) >= 1<<20 {
		tag = "[large-body]"
	}
	return &op{kind: "upload-part", class: class, eclass: eclass, tag: tag, desc: fmt.Sprintf("PUT /%s/%s?partNumber=%d&uploadId=<U%d> len=%d %v", u.bucket, u.key, n, u.slot, len(body), hdr),
		mut: true, bucket: u.bucket, dom: "up", slot: u.slot,
		req: p.upReq("PUT", u, func(*side) []string { return []string{"partNumber", pn} }, hdr, func(*side) []byte { return body }, ph, st),
		after: func(s *side, r *s3c.Resp) {
			if okResp(r) && s.ups[u.slot] != nil {
				s.ups[u.slot].etags[n] = strings.Trim(r.Header.Get("Etag"), `"`)
			}
		},
		onAck: func() { u.parts[n] = body }}
}

func (p *prog) genUploadPartCopy(u *mup, n int) *op {
	sb := p.liveBucket()
	sk, skOK := p.key(sb, 95)
	src := p.m.objs[sb][sk]
	hdr := s3c.H{{"X-Amz-Copy-Source", s3c.URIEncode(sb+"/"+sk, false)}}
	class := "whole-source"
	part := src
	if len(src) > 1 && p.r.Intn(3) > 0 {
		a := p.r.Intn(len(src))
		b := a + p.r.Intn(len(src)-a)
		switch p.r.Intn(5) {
		case 0:
			b = len(src) + 5
			class = "range-beyond-end"
			part = nil
		case 1:
			hdr.Set("x-amz-copy-source-range", p.pick("bytes=abc", fmt.Sprintf("%d-%d", a, b), "bytes=-5"))
			class = "range-malformed"
			part = nil
		default:
			class = "range"
			part = src[a : b+1]
		}
		if hdr.Get("x-amz-copy-source-range") == "" {
			hdr.Set("x-amz-copy-source-range", fmt.Sprintf("bytes=%d-%d", a, b))
		}
	}
	eclass := class
	if !skOK {
		class = "source-missing-key"
		eclass = class
	} else if strings.ContainsAny(sk, "%+?") {
		eclass = "source-key-with-url-special-character"
	}
	pn := strconv.Itoa(n)
	return &op{kind: "upload-part-copy", class: class, eclass: eclass, inherit: []string{sb + "/" + sk}, desc: fmt.Sprintf("PUT /%s/%s?partNumber=%d&uploadId=<U%d> %v", u.bucket, u.key, n, u.slot, hdr),
		mut: true, bucket: u.bucket, dom: "up", slot: u.slot, body: "xml",
		req: p.upReq("PUT", u, func(*side) []string { return []string{"partNumber", pn} }, hdr, nil, "", nil),
		after: func(s *side, r *s3c.Resp) {
			if okResp(r) && s.ups[u.slot] != nil {
				var x struct{ ETag string }
				xml.Unmarshal(r.Body, &x)
				s.ups[u.slot].etags[n] = strings.Trim(x.ETag, `"`)
			}
		},
		onAck: func() {
			if part != nil {
				u.parts[n] = part
			}
		}}
}

func (p *prog) genListParts(u *mup) *op {
	maxParts := p.pick("", "1", "2", "1000")
	marker := p.pick("", "", "1", "7")
	class := "plain"
	if maxParts != "" {
		class = "max-parts=" + maxParts
	}
	if marker != "" {
		class += "+marker"
	}
	mk := func(marker string) func(*side) []string {
		return func(*side) []string {
			var q []string
			if maxParts != "" {
				q = append(q, "max-parts", maxParts)
			}
			if marker != "" {
				q = append(q, "part-number-marker", marker)
			}
			return q
		}
	}
	o := &op{kind: "list-parts", class: class, desc: fmt.Sprintf("GET /%s/%s?uploadId=<U%d> max-parts=%s marker=%s", u.bucket, u.key, u.slot, maxParts, marker), bucket: u.bucket, dom: "up", slot: u.slot, body: "xml",
		req: p.upReq("GET", u, mk(marker), nil, nil, "", nil)}
	o.next = func(s *side, r *s3c.Resp) reqFn {
		var x struct {
			IsTruncated          bool
			NextPartNumberMarker string
		}
		xml.Unmarshal(r.Body, &x)
		if !x.IsTruncated || x.NextPartNumberMarker == "" {
			return nil
		}
		return p.upReq("GET", u, mk(x.NextPartNumberMarker), nil, nil, "", nil)
	}
	return o
}

func (p *prog) genListUploads() *op {
	b, bOK := p.bucket()
	var q []string
	q = append(q, "uploads", "\x00")
	var cl []string
	if p.r.Intn(3) == 0 {
		q = append(q, "prefix", p.pick("dir/", "b", "zzz"))
		cl = append(cl, "prefix")
	}
	if p.r.Intn(3) == 0 {
		q = append(q, "delimiter", "/")
		cl = append(cl, "delimiter")
	}
	if p.r.Intn(3) == 0 {
		mu := p.pick("1", "2", "1000")
		q = append(q, "max-uploads", mu)
		cl = append(cl, "max-uploads="+mu)
	}
	class := strings.Join(cl, "+")
	if class == "" {
		class = "plain"
	}
	if !bOK {
		class = "missing-bucket"
	}
	return &op{kind: "list-uploads", class: class, desc: fmt.Sprintf("GET /%s?%s", b, s3c.Q(q...)), bucket: b, dom: "ups", body: "xml",
		req: func(*side) *s3c.Req { return &s3c.Req{Method: "GET", Path: s3c.BucketPath(b), Query: s3c.Q(q...)} }}
}

func (p *prog) genComplete(u *mup) *op {
	var ns []int
	for n := range u.parts {
		ns = append(ns, n)
	}
	sort.Ints(ns)
	class := "all-parts"
	variant := p.r.Intn(10)
	switch {
	case variant == 0 && len(ns) > 0:
		class = "wrong-etag"
	case variant == 1 && len(ns) > 1:
		class = "out-of-order"
		ns[0], ns[1] = ns[1], ns[0]
	case variant == 2 && len(ns) > 1:
		class = "subset"
		ns = ns[:len(ns)-1]
	case variant == 3:
		class = "unknown-part"
		ns = append(ns, 99)
	}
	if len(ns) == 0 {
		class = "no-parts"
	}
	var whole []byte
	for i, n := range ns {
		whole = append(whole, u.parts[n]...)
		if i < len(ns)-1 && len(u.parts[n]) < 5<<20 {
			if class == "all-parts" {
				class = "part-too-small"
			}
		}
	}
	order := append([]int{}, ns...)
	k := u.bucket + "/" + u.key
	// one completion in three declares the size of the object it expects (x-amz-mp-object-size): right, or wrong
	var chdr s3c.H
	switch p.r.Intn(5) {
	case 0:
		chdr = s3c.H{{"X-Amz-Mp-Object-Size", strconv.Itoa(len(whole))}}
		class += "+declared-size-right"
	case 1:
		chdr = s3c.H{{"X-Amz-Mp-Object-Size", strconv.Itoa(len(whole) + 1 + p.r.Intn(3))}}
		class += "+declared-size-wrong"
	}
	return &op{kind: "complete-mpu", class: class, desc: fmt.Sprintf("POST /%s/%s?uploadId=<U%d> parts=%v %v", u.bucket, u.key, u.slot, order, chdr), mut: true, bucket: u.bucket, keys: []string{k}, dom: "up", slot: u.slot, body: "xml",
		req: p.upReq("POST", u, nil, chdr, func(s *side) []byte {
			var parts []s3c.Part
			for _, n := range order {
				e := s.etag(u.slot, n)
				if class == "wrong-etag" && n == order[0] {
					e = "ffffffffffffffffffffffffffffffff"
				}
				parts = append(parts, s3c.Part{N: n, ETag: e})
			}
			return s3c.CompleteXML(parts)
		}, "", nil),
		onAck: func() {
			u.open = false
			if p.m.objs[u.bucket] != nil {
				p.m.objs[u.bucket][u.key] = whole
			}
		}}
}

func (p *prog) genAbort(u *mup) *op {
	return &op{kind: "abort-mpu", class: "open-upload", desc: fmt.Sprintf("DELETE /%s/%s?uploadId=<U%d>", u.bucket, u.key, u.slot), mut: true, bucket: u.bucket, dom: "up", slot: u.slot,
		req: p.upReq("DELETE", u, nil, nil, nil, "", nil), onAck: func() { u.open = false }}
}

// genUploadsPaging: several uploads open in one bucket at the same time, then truncated ListMultipartUploads pages
// and the follow-up request a client builds from the markers of such a page.
func (p *prog) genUploadsPaging() *op {
	b := p.liveBucket()
	// distinct keys: upload ids are random, two uploads of one key list in an order that legitimately differs
	avoid := map[string]bool{}
	first, u1 := p.genCreateMPUIn(b, true, avoid)
	avoid[u1.key] = true
	var q []*op
	for i := 0; i < 2; i++ {
		o, u := p.genCreateMPUIn(b, true, avoid)
		avoid[u.key] = true
		q = append(q, o)
	}
	list := func(class string, extra func(s *side) []string) *op {
		return &op{kind: "list-uploads", class: class, desc: "GET /" + b + "?uploads " + class, bucket: b, dom: "ups", body: "xml",
			req: func(s *side) *s3c.Req {
				kv := []string{"uploads", "\x00"}
				kv = append(kv, extra(s)...)
				return &s3c.Req{Method: "GET", Path: s3c.BucketPath(b), Query: s3c.Q(kv...)}
			}}
	}
	q = append(q, list("paging:max-uploads=1", func(*side) []string { return []string{"max-uploads", "1"} }))
	q = append(q, list("paging:max-uploads=2", func(*side) []string { return []string{"max-uploads", "2"} }))
	q = append(q, list("paging:markers-of-an-upload", func(s *side) []string {
		return []string{"max-uploads", "1", "key-marker", u1.key, "upload-id-marker", s.uploadID(u1.slot)}
	}))
	q = append(q, list("paging:key-marker", func(*side) []string { return []string{"max-uploads", "1", "key-marker", u1.key} }))
	p.queue = append(p.queue, q...)
	return first
}

// genMultipart either starts a whole upload scenario (queued) or issues one multipart call.
func (p *prog) genMultipart() *op {
	if p.r.Intn(5) == 0 && len(p.queue) == 0 {
		return p.genUploadsPaging()
	}
	u := p.openUpload()
	if u == nil || p.r.Intn(6) == 0 {
		o, nu := p.genCreateMPU()
		// the scenario: parts (sometimes a 5 MiB one so that two parts can be completed), listing, completion
		big := p.r.Intn(3) == 0 && p.bigParts < 2
		var q []*op
		n := 1
		if big {
			p.bigParts++
			q = append(q, p.genUploadPart(nu, n, true))
			n++
		}
		if p.r.Intn(2) == 0 && len(p.m.objs[p.liveBucket()]) > 0 {
			q = append(q, p.genUploadPartCopy(nu, n))
		} else {
			q = append(q, p.genUploadPart(nu, n, false))
		}
		if p.r.Intn(2) == 0 {
			q = append(q, p.genListParts(nu))
		}
		if p.r.Intn(3) == 0 {
			q = append(q, p.genListUploads())
		}
		p.queue = append(p.queue, q...)
		p.queue = append(p.queue, &op{kind: "(deferred)", req: nil, slot: nu.slot})
		return o
	}
	switch p.r.Intn(10) {
	case 0, 1:
		return p.genUploadPart(u, 1+p.r.Intn(4), false)
	case 2:
		return p.genUploadPartCopy(u, 1+p.r.Intn(4))
	case 3, 4:
		return p.genListParts(u)
	case 5:
		return p.genListUploads()
	case 6:
		return p.genAbort(u)
	}
	return p.genComplete(u)
}

// unknown upload ids: the error translation
func (p *prog) genBadUpload() *op {
	b, _ := p.bucket()
	k, _ := p.key(b, 50)
	u := &mup{slot: -1, bucket: b, key: k}
	switch p.r.Intn(4) {
	case 0:
		o := p.genUploadPart(u, 1, false)
		o.class = "unknown-upload"
		if strings.HasPrefix(o.eclass, "wrong-") {
			o.eclass = "unknown-upload+" + o.eclass
		} else {
			o.eclass = "unknown-upload"
		}
		if strings.HasSuffix(k, "/") {
			o.eclass = "directory-object-with-data"
		}
		o.onAck = nil
		return o
	case 1:
		o := p.genListParts(u)
		o.class = "unknown-upload"
		return o
	case 2:
		o := p.genAbort(u)
		o.class = "unknown-upload"
		o.onAck = nil
		return o
	}
	o := p.genComplete(u)
	o.class = "unknown-upload"
	o.onAck = nil
	o.keys = nil
	return o
}

// ---- bucket settings -----------------------------------------------------------

func ownershipXML(v string) []byte {
	return []byte(`<OwnershipControls xmlns="http://s3.amazonaws.com/doc/2006-03-01/"><Rule><ObjectOwnership>` + v + `</ObjectOwnership></Rule></OwnershipControls>`)
}

func (p *prog) genOwnership() *op {
	b, bOK := p.bucket()
	ec := existClass(bOK, true)
	switch p.r.Intn(5) {
	case 0, 1:
		v := p.pick("BucketOwnerPreferred", "ObjectWriter", "BucketOwnerEnforced")
		return &op{kind: "put-ownership-controls", class: ec + ":" + v, eclass: ec, desc: "PUT /" + b + "?ownershipControls " + v, mut: true, bucket: b, dom: "cfg",
			req:   bktReq("PUT", b, "ownershipControls=", nil, ownershipXML(v)),
			onAck: func() { p.m.own[b] = v },
			onPAck: func(p *prog) {
				p.exp["ownership:"+b] = v
				delete(p.exp, "acl:"+b)
			}}
	case 2:
		return &op{kind: "delete-ownership-controls", class: ec, desc: "DELETE /" + b + "?ownershipControls", mut: true, bucket: b, dom: "cfg",
			req: bktReq("DELETE", b, "ownershipControls=", nil, nil), onPAck: func(p *prog) { delete(p.exp, "ownership:"+b); delete(p.exp, "acl:"+b) }}
	}
	return &op{kind: "get-ownership-controls", class: ec, desc: "GET /" + b + "?ownershipControls", bucket: b, dom: "cfg", body: "xml",
		req: bktReq("GET", b, "ownershipControls=", nil, nil),
		rt: func(p *prog, r *s3c.Resp) []diff {
			want, ok := p.exp["ownership:"+b]
			if !ok {
				return nil
			}
			var x struct {
				Rule []struct{ ObjectOwnership string }
			}
			xml.Unmarshal(r.Body, &x)
			got := ""
			if len(x.Rule) > 0 {
				got = x.Rule[0].ObjectOwnership
			}
			p.c.Distinct("roundtrip|ownership")
			if got != want {
				return []diff{{"ownership-roundtrip:differs", got, "written through the proxy: " + want}}
			}
			return nil
		}}
}

type grant struct{ id, perm string }

func grantsCanon(gs []grant, owner string) string {
	var out []string
	seen := map[string]bool{}
	for _, g := range gs {
		if g.id == owner {
			continue
		}
		s := g.id + "|" + g.perm
		if !seen[s] {
			seen[s] = true
			out = append(out, s)
		}
	}
	sort.Strings(out)
	return "owner=" + owner + " grants=" + strings.Join(out, ",")
}

func parseACL(body []byte) (string, bool) {
	var x struct {
		Owner             struct{ ID string }
		AccessControlList struct {
			Grant []struct {
				Grantee struct {
					ID  string
					URI string
				}
				Permission string
			}
		}
	}
	if xml.Unmarshal(body, &x) != nil {
		return "", false
	}
	var gs []grant
	for _, g := range x.AccessControlList.Grant {
		id := g.Grantee.ID
		if id == "" {
			id = g.Grantee.URI
		}
		if strings.HasSuffix(id, "/AllUsers") {
			id = "all-users"
		}
		gs = append(gs, grant{id, g.Permission})
	}
	return grantsCanon(gs, x.Owner.ID), true
}

func aclRT(b string) func(p *prog, r *s3c.Resp) []diff {
	return func(p *prog, r *s3c.Resp) []diff {
		want, ok := p.exp["acl:"+b]
		if !ok {
			return nil
		}
		got, pok := parseACL(r.Body)
		p.c.Distinct("roundtrip|acl")
		if !pok || got != want {
			return []diff{{"acl-roundtrip:differs", got, "written through the proxy: " + want}}
		}
		return nil
	}
}

func (p *prog) genACL() *op {
	b, bOK := p.bucket()
	ec := existClass(bOK, true)
	if p.r.Intn(5) < 2 {
		o := &op{kind: "get-bucket-acl", class: ec, desc: "GET /" + b + "?acl", bucket: b, dom: "cfg", body: "xml", req: bktReq("GET", b, "acl=", nil, nil), rt: aclRT(b)}
		if p.r.Intn(8) == 0 {
			o.as = p.pick("alice", "bob")
			o.class += "+as-user"
		}
		return o
	}
	var hdr s3c.H
	var body []byte
	var gs []grant
	class := ""
	owner := "rootaccesskey"
	switch p.r.Intn(3) {
	case 0:
		c := p.pick("private", "public-read", "public-read-write")
		hdr.Set("x-amz-acl", c)
		class = "canned:" + c
		switch c {
		case "public-read":
			gs = []grant{{"all-users", "READ"}}
		case "public-read-write":
			gs = []grant{{"all-users", "READ"}, {"all-users", "WRITE"}}
		}
	case 1:
		class = "grant-headers"
		for _, h := range [][2]string{{"x-amz-grant-read", "READ"}, {"x-amz-grant-write", "WRITE"}, {"x-amz-grant-read-acp", "READ_ACP"}, {"x-amz-grant-write-acp", "WRITE_ACP"}, {"x-amz-grant-full-control", "FULL_CONTROL"}} {
			if p.r.Intn(3) == 0 {
				u := p.pick("alice", "bob")
				if p.r.Intn(3) == 0 {
					hdr.Set(h[0], "alice,bob")
					gs = append(gs, grant{"alice", h[1]}, grant{"bob", h[1]})
				} else {
					hdr.Set(h[0], u)
					gs = append(gs, grant{u, h[1]})
				}
			}
		}
		if len(hdr) == 0 {
			hdr.Set("x-amz-grant-read", "bob")
			gs = append(gs, grant{"bob", "READ"})
		}
	default:
		class = "xml-body"
		var sb strings.Builder
		sb.WriteString(`<AccessControlPolicy xmlns="http://s3.amazonaws.com/doc/2006-03-01/"><Owner><ID>` + owner + `</ID></Owner><AccessControlList>`)
		n := 1 + p.r.Intn(6)
		for i := 0; i < n; i++ {
			u := p.pick("alice", "bob")
			perm := p.pick("READ", "WRITE", "READ_ACP", "WRITE_ACP", "FULL_CONTROL")
			sb.WriteString(`<Grant><Grantee xmlns:xsi="http://www.w3.org/2001/XMLSchema-instance" xsi:type="CanonicalUser"><ID>` + u + `</ID></Grantee><Permission>` + perm + `</Permission></Grant>`)
			gs = append(gs, grant{u, perm})
		}
		sb.WriteString(`</AccessControlList></AccessControlPolicy>`)
		body = []byte(sb.String())
		class += fmt.Sprintf(":%d-grants", n)
	}
	want := grantsCanon(gs, owner)
	if bOK && (p.m.own[b] == "" || p.m.own[b] == "BucketOwnerEnforced") && p.r.Intn(4) > 0 {
		// ACLs need an ownership setting other than BucketOwnerEnforced: set it first, then the ACL
		v := p.pick("BucketOwnerPreferred", "ObjectWriter")
		acl := &op{kind: "put-bucket-acl", class: ec + ":" + class, eclass: ec, desc: fmt.Sprintf("PUT /%s?acl %v %s", b, hdr, body), mut: true, bucket: b, dom: "cfg",
			req: bktReq("PUT", b, "acl=", hdr, body), onPAck: func(p *prog) {
				if _, chg := p.exp["owner-changed:"+b]; !chg {
					p.exp["acl:"+b] = want
				}
			}}
		get := &op{kind: "get-bucket-acl", class: ec + ":after-put", desc: "GET /" + b + "?acl", bucket: b, dom: "cfg", body: "xml", req: bktReq("GET", b, "acl=", nil, nil), rt: aclRT(b)}
		p.queue = append([]*op{acl, get}, p.queue...)
		return &op{kind: "put-ownership-controls", class: ec + ":" + v, eclass: ec, desc: "PUT /" + b + "?ownershipControls " + v, mut: true, bucket: b, dom: "cfg",
			req:   bktReq("PUT", b, "ownershipControls=", nil, ownershipXML(v)),
			onAck: func() { p.m.own[b] = v },
			onPAck: func(p *prog) {
				p.exp["ownership:"+b] = v
				delete(p.exp, "acl:"+b)
			}}
	}
	return &op{kind: "put-bucket-acl", class: ec + ":" + class, eclass: ec, desc: fmt.Sprintf("PUT /%s?acl %v %s", b, hdr, body), mut: true, bucket: b, dom: "cfg",
		req: bktReq("PUT", b, "acl=", hdr, body), onPAck: func(p *prog) {
			if _, chg := p.exp["owner-changed:"+b]; !chg {
				p.exp["acl:"+b] = want
			}
		}}
}

func (p *prog) genPolicy() *op {
	b, bOK := p.bucket()
	ec := existClass(bOK, true)
	switch p.r.Intn(6) {
	case 0, 1, 2:
		princ := p.pick(`"*"`, `{"AWS":"alice"}`, `{"AWS":["alice","bob"]}`, `{"AWS":"bob"}`)
		act := p.pick(`"s3:GetObject"`, `["s3:GetObject","s3:PutObject","s3:DeleteObject"]`, `"s3:ListBucket"`, `"s3:*"`, `"s3:GetBucketAcl"`)
		res := fmt.Sprintf(`["arn:aws:s3:::%s","arn:aws:s3:::%s/*"]`, b, b)
		if act == `"s3:GetObject"` {
			res = fmt.Sprintf(`"arn:aws:s3:::%s/%s*"`, b, p.pick("", "dir/", "a"))
		}
		eff := p.pick("Allow", "Allow", "Deny")
		doc := fmt.Sprintf(`{"Version":"2012-10-17","Statement":[{"Sid":"s%d","Effect":"%s","Principal":%s,"Action":%s,"Resource":%s}]}`, p.r.Intn(100), eff, princ, act, res)
		if p.r.Intn(10) == 0 {
			doc = `{"Version":"2012-10-17","Statement":[{"Effect":"Allow","Principal":{"AWS":"nobody-here"},"Action":"s3:GetObject","Resource":"arn:aws:s3:::` + b + `/*"}]}`
			ec = "unknown-principal"
		}
		want := canonJSON([]byte(doc))
		return &op{kind: "put-bucket-policy", class: ec + ":" + eff, eclass: ec, desc: "PUT /" + b + "?policy " + doc, mut: true, bucket: b, dom: "cfg",
			req: bktReq("PUT", b, "policy=", nil, []byte(doc)), onPAck: func(p *prog) { p.exp["policy:"+b] = want }}
	case 3:
		return &op{kind: "delete-bucket-policy", class: ec, desc: "DELETE /" + b + "?policy", mut: true, bucket: b, dom: "cfg",
			req: bktReq("DELETE", b, "policy=", nil, nil), onPAck: func(p *prog) { delete(p.exp, "policy:"+b) }}
	}
	return &op{kind: "get-bucket-policy", class: ec, desc: "GET /" + b + "?policy", bucket: b, dom: "cfg", body: "json", req: bktReq("GET", b, "policy=", nil, nil),
		rt: func(p *prog, r *s3c.Resp) []diff {
			want, ok := p.exp["policy:"+b]
			if !ok {
				return nil
			}
			p.c.Distinct("roundtrip|policy")
			if got := canonJSON(r.Body); got != want {
				return []diff{{"policy-roundtrip:differs", short(got), "written through the proxy: " + short(want)}}
			}
			return nil
		}}
}

func (p *prog) genVersioning() *op {
	b, bOK := p.bucket()
	ec := existClass(bOK, true)
	if p.r.Intn(2) == 0 {
		st := p.pick("Enabled", "Enabled", "Suspended")
		body := `<VersioningConfiguration xmlns="http://s3.amazonaws.com/doc/2006-03-01/"><Status>` + st + `</Status></VersioningConfiguration>`
		return &op{kind: "put-bucket-versioning", class: ec + ":" + st, eclass: ec, desc: "PUT /" + b + "?versioning " + st, mut: true, bucket: b, dom: "cfg",
			req: bktReq("PUT", b, "versioning=", nil, []byte(body)), onAck: func() { p.m.verOn[b] = st == "Enabled" }}
	}
	return &op{kind: "get-bucket-versioning", class: ec, desc: "GET /" + b + "?versioning", bucket: b, dom: "cfg", body: "xml", req: bktReq("GET", b, "versioning=", nil, nil)}
}

func (p *prog) genLock() *op {
	b, bOK := p.bucket()
	k, kOK := p.key(b, 85)
	ec := existClass(bOK, kOK)
	ref := []string{b + "/" + k}
	switch p.r.Intn(7) {
	case 0:
		body := `<ObjectLockConfiguration xmlns="http://s3.amazonaws.com/doc/2006-03-01/"><ObjectLockEnabled>Enabled</ObjectLockEnabled><Rule><DefaultRetention><Mode>GOVERNANCE</Mode><Days>1</Days></DefaultRetention></Rule></ObjectLockConfiguration>`
		return &op{kind: "put-object-lock-configuration", class: existClass(bOK, true), desc: "PUT /" + b + "?object-lock", mut: true, bucket: b, dom: "cfg", req: bktReq("PUT", b, "object-lock=", nil, []byte(body))}
	case 1, 2:
		return &op{kind: "get-object-lock-configuration", class: existClass(bOK, true), desc: "GET /" + b + "?object-lock", bucket: b, dom: "cfg", body: "xml", req: bktReq("GET", b, "object-lock=", nil, nil)}
	case 3:
		body := []byte(`<Retention xmlns="http://s3.amazonaws.com/doc/2006-03-01/"><Mode>GOVERNANCE</Mode><RetainUntilDate>2099-01-01T00:00:00Z</RetainUntilDate></Retention>`)
		return &op{kind: "put-object-retention", class: ec, desc: fmt.Sprintf("PUT /%s/%s?retention", b, k), mut: true, bucket: b, keys: ref, dom: "obj",
			req: objReq("PUT", b, k, "retention=", s3c.H{{"Content-MD5", s3c.MD5B64(body)}}, body)}
	case 4:
		return &op{kind: "get-object-retention", class: ec, desc: fmt.Sprintf("GET /%s/%s?retention", b, k), bucket: b, keys: ref, dom: "obj", body: "xml", req: objReq("GET", b, k, "retention=", nil, nil)}
	case 5:
		body := []byte(`<LegalHold xmlns="http://s3.amazonaws.com/doc/2006-03-01/"><Status>` + p.pick("ON", "OFF") + `</Status></LegalHold>`)
		return &op{kind: "put-object-legal-hold", class: ec, desc: fmt.Sprintf("PUT /%s/%s?legal-hold", b, k), mut: true, bucket: b, keys: ref, dom: "obj",
			req: objReq("PUT", b, k, "legal-hold=", s3c.H{{"Content-MD5", s3c.MD5B64(body)}}, body)}
	}
	return &op{kind: "get-object-legal-hold", class: ec, desc: fmt.Sprintf("GET /%s/%s?legal-hold", b, k), bucket: b, keys: ref, dom: "obj", body: "xml", req: objReq("GET", b, k, "legal-hold=", nil, nil)}
}

func (p *prog) genCors() *op {
	b, bOK := p.bucket()
	ec := existClass(bOK, true)
	switch p.r.Intn(3) {
	case 0:
		body := `<CORSConfiguration xmlns="http://s3.amazonaws.com/doc/2006-03-01/"><CORSRule><AllowedOrigin>*</AllowedOrigin><AllowedMethod>GET</AllowedMethod></CORSRule></CORSConfiguration>`
		return &op{kind: "put-bucket-cors", class: ec, desc: "PUT /" + b + "?cors", mut: true, bucket: b, dom: "cfg", req: bktReq("PUT", b, "cors=", nil, []byte(body))}
	case 1:
		return &op{kind: "delete-bucket-cors", class: ec, desc: "DELETE /" + b + "?cors", mut: true, bucket: b, dom: "cfg", req: bktReq("DELETE", b, "cors=", nil, nil)}
	}
	return &op{kind: "get-bucket-cors", class: ec, desc: "GET /" + b + "?cors", bucket: b, dom: "cfg", body: "xml", req: bktReq("GET", b, "cors=", nil, nil)}
}

func (p *prog) genAdmin() *op {
	if p.r.Intn(2) == 0 {
		return &op{kind: "admin-list-buckets", class: "plain", desc: "PATCH /list-buckets", dom: "svc",
			req: func(*side) *s3c.Req { return &s3c.Req{Method: "PATCH", Path: "/list-buckets"} }}
	}
	b, bOK := p.bucket()
	owner := p.pick("alice", "bob", "rootaccesskey", "nobody-here")
	class := existClass(bOK, true)
	if owner == "nobody-here" {
		class = "unknown-owner"
	}
	return &op{kind: "admin-change-bucket-owner", class: class, desc: "PATCH /change-bucket-owner?bucket=" + b + "&owner=" + owner, mut: true, bucket: b, dom: "cfg",
		req: func(*side) *s3c.Req {
			return &s3c.Req{Method: "PATCH", Path: "/change-bucket-owner", Query: s3c.Q("bucket", b, "owner", owner)}
		},
		onPAck: func(p *prog) {
			delete(p.exp, "acl:"+b)
			p.exp["owner-changed:"+b] = owner
		}}
}

// ---- the mix -------------------------------------------------------------------

func (p *prog) gen() *op {
	if len(p.m.buckets) == 0 {
		return p.genCreateBucket()
	}
	// resolve deferred completions of queued multipart scenarios
	x := p.r.Intn(1000)
	switch {
	case x < 30:
		return p.genCreateBucket()
	case x < 45:
		return p.genDeleteBucket()
	case x < 60:
		return p.genHeadBucket()
	case x < 85:
		return p.genListBuckets()
	case x < 260:
		return p.genPut()
	case x < 370:
		return p.genGet(false)
	case x < 430:
		return p.genGet(true)
	case x < 460:
		return p.genDelete()
	case x < 485:
		return p.genDeleteObjects()
	case x < 545:
		return p.genCopy()
	case x < 590:
		return p.genObjTagging()
	case x < 605:
		return p.genBucketTagging()
	case x < 690:
		return p.genList()
	case x < 790:
		return p.genMultipart()
	case x < 805:
		return p.genBadUpload()
	case x < 830:
		return p.genOwnership()
	case x < 870:
		return p.genACL()
	case x < 905:
		return p.genPolicy()
	case x < 925:
		return p.genVersioning()
	case x < 945:
		return p.genLock()
	case x < 955:
		return p.genCors()
	case x < 970:
		return p.genAttributes()
	case x < 980:
		return p.genObjectACL()
	case x < 992:
		return p.genAdmin()
	}
	return p.genListUploads()
}

// ---- lane http-default ---------------------------------------------------------

// laneHTTPDefault runs a tiny fixed program against a proxy started exactly as documented
// (no AWS_* tuning): the SDK's default request-checksum mode meets a plain-http endpoint.
// It reports whether uploads work that way (if not, the programs need the environment workaround).
func laneHTTPDefault(c *ev.Ctx) bool {
	p, err := newProg(c, "http-default", 7, nil)
	if err != nil {
		c.Inconclusive("gateway start: " + firstLine(err.Error()))
		return false
	}
	defer p.close()
	b := "bk-alpha"
	p.step(&op{kind: "create-bucket", class: "new", desc: "PUT /" + b, mut: true, bucket: b, dom: "cfg", bucketEffect: true, req: bktReq("PUT", b, "", nil, nil), onAck: func() { p.m.addBucket(b) }})
	body := []byte("hello proxy")
	put := &op{kind: "put@sdk-default-checksum-mode", class: "signed", desc: "PUT /" + b + "/a len=11 (proxy without AWS_REQUEST_CHECKSUM_CALCULATION)", mut: true, bucket: b, keys: []string{b + "/a"}, dom: "obj",
		req: objReq("PUT", b, "a", "", nil, body)}
	p.step(put)
	u := &mup{slot: 1, bucket: b, key: "m", parts: map[int][]byte{}, open: true}
	p.m.ups = append(p.m.ups, u)
	o := &op{kind: "create-mpu", class: "plain", desc: "POST /" + b + "/m?uploads", mut: true, bucket: b, dom: "up", slot: 1, body: "xml", req: objReq("POST", b, "m", "uploads=", nil, nil),
		after: func(s *side, r *s3c.Resp) {
			var x struct{ UploadId string }
			xml.Unmarshal(r.Body, &x)
			s.ups[1] = &upState{id: x.UploadId, etags: map[int]string{}}
			s.slot[x.UploadId] = "<U1>"
		}}
	p.step(o)
	up := &op{kind: "upload-part@sdk-default-checksum-mode", class: "signed", desc: "PUT /" + b + "/m?partNumber=1 (proxy without AWS_REQUEST_CHECKSUM_CALCULATION)", mut: true, bucket: b, dom: "up", slot: 1,
		req: p.upReq("PUT", u, func(*side) []string { return []string{"partNumber", "1"} }, nil, func(*side) []byte { return body }, "", nil)}
	p.step(up)
	return p.n2xx[put.kind] > 0 && p.n2xx[up.kind] > 0
}
