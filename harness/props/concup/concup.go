// Package concup is the "concurrent uploads" lane shared by C01 (fidelity) and C06 (integrity): many clients
// upload DIFFERENT keys at the same time through ONE gateway process, in every payload encoding, with chunk sizes
// around and above the gateway's read buffer; a share of them is sent with a deliberately wrong integrity field
// (those must be refused). Afterwards every acknowledged object is read back through a second process sharing
// the storage. What a request stores must not depend on what else the process serves at that moment (pooled
// buffers, shared decoders, reused hashers).
//
// Modes:
//
//	plain     default scheduler
//	fewprocs  gateway runs with GOMAXPROCS=2: per-P caches (sync.Pool) are shared by many requests
//	race      gateway built with -race: every report whose stacks touch versitygw code is a violation
package concup

import (
	"bytes"
	"fmt"
	"math/rand"
	"strings"
	"sync"

	"verif/harness/internal/ev"
	"verif/harness/internal/fx"
	"verif/harness/internal/gw"
	"verif/harness/internal/s3c"
)

type Opt struct {
	ID       string    // case id (replay filter)
	Name     string    // configuration name (evidence)
	Store    string    // suffix of the signatures
	GW       gw.Config // gateway configuration
	Mode     string    // plain | fewprocs | race
	Seed     int64
	Workers  int // default 16
	Per      int // uploads per worker, default 4
	MaxBody  int // default 2_000_000
	Corrupt  bool // mix in uploads with a wrong trailing checksum (must be refused, key must stay absent)
	PartsToo bool // a share of the uploads goes through UploadPart + Complete
}

type up struct {
	key, enc string
	body     []byte
	chunks   []int
	corrupt  bool
	viaPart  bool
	acked    bool
	status   string
}

func Run(c *ev.Ctx, o Opt) {
	if !c.Want(o.ID) {
		return
	}
	if o.Workers == 0 {
		o.Workers = 16
	}
	if o.Per == 0 {
		o.Per = 4
	}
	if o.MaxBody == 0 {
		o.MaxBody = 2000000
	}
	cfg := o.GW
	switch o.Mode {
	case "fewprocs":
		cfg.Env = append(append([]string{}, cfg.Env...), "GOMAXPROCS=2")
	case "race":
		cfg.Race = true
	}
	env, err := fx.New("concup", cfg, 2)
	if err != nil {
		c.Inconclusive("gateway start (concurrent lane): " + first(err.Error()))
		return
	}
	defer env.Close()
	root := env.Client(0)
	const bucket = "concurrent"
	if r := root.CreateBucket(bucket); !r.OK() {
		c.Inconclusive("create bucket: " + r.String())
		return
	}
	// the decoders of the streaming encodings keep per-request state across reads: weight them
	encs := []string{"signed", "unsigned", "chunked", "chunked-tr", "chunked-tr", "unsigned-tr", "unsigned-tr", "unsigned-tr", "unsigned-tr", "chunked"}
	chunkChoices := [][]int{{1024}, {32768}, {33000}, {65536}, {70000}, {100003}, {8192, 1, 65537}, {40000, 5}}
	ups := make([][]*up, o.Workers)
	var wg sync.WaitGroup
	for w := 0; w < o.Workers; w++ {
		wg.Add(1)
		go func(w int) {
			defer wg.Done()
			r := rand.New(rand.NewSource(o.Seed*1009 + int64(w)))
			cl := env.Client(0) // all through the same process
			for n := 0; n < o.Per; n++ {
				u := &up{key: fmt.Sprintf("w%02d/obj-%d", w, n), enc: encs[r.Intn(len(encs))]}
				u.body = make([]byte, 300000+r.Intn(o.MaxBody-300000))
				r.Read(u.body)
				// make every object recognisable in a mixed-up result
				copy(u.body, []byte(fmt.Sprintf("<<%s>>", u.key)))
				path := s3c.ObjPath(bucket, u.key)
				var uploadID string
				if o.PartsToo && r.Intn(4) == 0 {
					cr := cl.Do(&s3c.Req{Method: "POST", Path: path, Query: "uploads"})
					uploadID = between(string(cr.Body), "<UploadId>", "</UploadId>")
					if cr.OK() && uploadID != "" {
						u.viaPart = true
					}
				}
				req := &s3c.Req{Method: "PUT", Path: path, Body: u.body}
				if u.viaPart {
					req.Query = "partNumber=1&uploadId=" + uploadID
				}
				switch u.enc {
				case "unsigned":
					req.PayloadHash = s3c.Unsigned
				case "chunked", "chunked-tr", "unsigned-tr":
					u.chunks = chunkChoices[r.Intn(len(chunkChoices))]
					st := &s3c.Stream{ChunkSizes: u.chunks}
					switch u.enc {
					case "chunked":
						st.Mode = s3c.StreamSigned
					case "chunked-tr":
						st.Mode = s3c.StreamSignedTr
						st.TrailerName = "x-amz-checksum-" + s3c.Algos[r.Intn(len(s3c.Algos))]
					default:
						st.Mode = s3c.StreamUnsignTr
						st.TrailerName = "x-amz-checksum-" + s3c.Algos[r.Intn(len(s3c.Algos))]
					}
					if o.Corrupt && st.TrailerName != "" && r.Intn(5) == 0 {
						// a checksum of different bytes, well-formed
						other := append([]byte{}, u.body...)
						other[len(other)/2] ^= 0x40
						st.TrailerVal = s3c.Checksum(strings.TrimPrefix(st.TrailerName, "x-amz-checksum-"), other)
						u.corrupt = true
					}
					req.Stream = st
				}
				resp := cl.Do(req)
				u.acked = resp.OK()
				u.status = resp.String()
				if u.viaPart && u.acked && !u.corrupt {
					cr := cl.CompleteMPU(bucket, u.key, uploadID, []s3c.Part{{N: 1, ETag: resp.Header.Get("Etag")}})
					if !cr.OK() || bytes.Contains(cr.Body, []byte("<Error>")) {
						u.acked = false
						u.status = "complete: " + cr.String()
					}
				}
				ups[w] = append(ups[w], u)
			}
		}(w)
	}
	wg.Wait()
	if i, cr := env.Dead(); cr != nil {
		c.Violation("concurrent:gateway-died:"+frame(cr), o.ID, map[string]any{"gateway": i, "crash": cr.Message, "lane": "concurrent", "mode": o.Mode})
		return
	}
	other := env.Client(1)
	acked, refused := 0, 0
	for w := range ups {
		for _, u := range ups[w] {
			c.Eval(1)
			det := map[string]any{"lane": "concurrent", "mode": o.Mode, "config": o.Name, "key": u.key, "encoding": u.enc, "chunk_sizes": u.chunks, "size": len(u.body), "via_part": u.viaPart, "upload": u.status}
			if u.corrupt {
				g := other.GetObject(bucket, u.key)
				det["get"] = g.String()
				if u.acked {
					c.Violation("concurrent:"+u.enc+":wrong-checksum-accepted:"+o.Store, o.ID, det)
				} else if u.viaPart {
					// the part was refused; the key was never completed
					if g.Status != 404 {
						c.Violation("concurrent:"+u.enc+":refused-part-visible:"+o.Store, o.ID, det)
					} else {
						refused++
						c.Distinct(fmt.Sprintf("concurrent|%s|%s|%s|corrupt-refused|part", o.Name, o.Mode, u.enc))
					}
				} else if g.Status != 404 {
					c.Violation("concurrent:"+u.enc+":refused-upload-stored:"+o.Store, o.ID, det)
				} else {
					refused++
					c.Distinct(fmt.Sprintf("concurrent|%s|%s|%s|corrupt-refused", o.Name, o.Mode, u.enc))
				}
				continue
			}
			if !u.acked {
				c.Observe("concurrent lane: upload refused: " + u.enc + " " + u.status)
				continue
			}
			acked++
			g := other.GetObject(bucket, u.key)
			det["get"] = g.String()
			if !g.OK() {
				c.Violation("concurrent:"+u.enc+":unreadable:"+o.Store, o.ID, det)
				continue
			}
			if !bytes.Equal(g.Body, u.body) {
				// whose bytes are these?
				at := -1
				for i := range g.Body {
					if i >= len(u.body) || g.Body[i] != u.body[i] {
						at = i
						break
					}
				}
				det["first_difference_at"] = at
				det["got_len"] = len(g.Body)
				if i := bytes.Index(g.Body, []byte("<<w")); i > 0 {
					det["foreign_marker"] = string(g.Body[i:min(len(g.Body), i+20)])
				}
				c.Violation("concurrent:"+u.enc+":body:"+o.Store, o.ID, det)
				continue
			}
			if !u.viaPart {
				if et := strings.Trim(g.Header.Get("Etag"), `"`); et != s3c.MD5Hex(u.body) {
					det["etag"] = et
					c.Violation("concurrent:"+u.enc+":etag:"+o.Store, o.ID, det)
					continue
				}
			}
			c.Distinct(fmt.Sprintf("concurrent|%s|%s|%s|chunks=%v|part=%v", o.Name, o.Mode, u.enc, u.chunks, u.viaPart))
		}
	}
	c.Add("concurrent_uploads_acked", acked)
	c.Add("concurrent_corrupt_uploads_refused", refused)
	if o.Mode == "race" {
		seen := map[string]bool{}
		for _, g := range env.GWs {
			g.Stop()
			for _, rep := range g.RaceReports() {
				sig, inV := gw.RaceSig(rep)
				if seen[sig] {
					continue
				}
				seen[sig] = true
				if inV {
					c.Violation("concurrent:race:"+sig, o.ID, map[string]any{"report": clip(rep, 3000), "config": o.Name})
				} else {
					c.Observe("race report entirely inside dependencies: " + sig)
				}
			}
		}
		c.Add("concurrent_race_lanes", 1)
	}
}

func between(s, a, b string) string {
	i := strings.Index(s, a)
	if i < 0 {
		return ""
	}
	s = s[i+len(a):]
	j := strings.Index(s, b)
	if j < 0 {
		return ""
	}
	return s[:j]
}

func first(s string) string {
	if i := strings.IndexByte(s, '\n'); i >= 0 {
		s = s[:i]
	}
	return clip(s, 200)
}

func clip(s string, n int) string {
	if len(s) > n {
		return s[:n]
	}
	return s
}

func frame(cr *gw.Crash) string {
	if cr.TopFrame != "" {
		return strings.TrimPrefix(cr.TopFrame, "github.com/versity/versitygw/")
	}
	return "unknown"
}
