//go:build !solo || solo_c03

package props

import _ "verif/harness/props/c03"
