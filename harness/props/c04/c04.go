// Package c04: requests stay confined to the bucket and object they name.
//
// Every client-controlled path-like parameter of every route is filled with
// escape attempts (spelling x depth x tail) and sent by the non-admin owner of
// the named bucket and by root to a gateway that runs under a throw-away uid
// inside a jail tree with canary files at every directory level. Monitors:
// byte-exact snapshot of everything outside the named bucket, canary contents
// in responses, seeded sibling objects of the named bucket.
package c04

import (
	"fmt"
	"net/url"
	"os"
	"path/filepath"
	"strings"
	"sync"

	"verif/harness/internal/ev"
	"verif/harness/internal/fx"
	"verif/harness/internal/gw"
	"verif/harness/internal/reg"
	"verif/harness/internal/s3c"
	"verif/harness/internal/snap"
)

func init() { reg.Register("C04", "exploration", Run) }

const (
	jailUID    = 4242
	named      = "named"
	victim     = "victim"
	canaryFile = "zq-canary.txt"
	canaryDir  = "zq-cdir"
	ownerAK    = "owner1"
	ownerSK    = "owner1secretkey"
)

// spelling of one "go up one level" step plus how the tail is attached.
type spelling struct {
	name string
	// wire: the step as it goes into a URL path (already in wire form)
	wire string
	// text: the step as plain text (for query / header / XML values, which are then encoded normally)
	text string
}

var spellings = []spelling{
	{"raw", "../", "../"},
	{"enc-all", "%2e%2e%2f", "%2e%2e%2f"},
	{"enc-slash", "..%2f", "..%2f"},
	{"enc-dots", "%2e%2e/", "%2e%2e/"},
	{"double-enc", "%252e%252e%252f", "%252e%252e%252f"},
	{"mixed", ".%2e/", ".%2e/"},
	{"dot-noise", "./../", "./../"},
	{"slash-noise", "..//", "..//"},
	{"backslash", "..%5c", "..\\"},
	{"nul", "..%00/", "..\x00/"},
	{"fullwidth", "%ef%bc%8e%ef%bc%8e/", "．．/"},
	{"overlong", "%c0%ae%c0%ae/", "\xc0\xae\xc0\xae/"},
	{"semicolon", "..;/", "..;/"},
	// a character inside / next to the dots that a later normalisation step might delete (C0 controls, DEL)
	{"ctl-inside", ".%01./", ".\x01./"},
	{"ctl-after", "..%1f/", "..\x1f/"},
	{"del-inside", ".%7f./", ".\x7f./"},
}

var quickSpellings = map[string]bool{"raw": true, "enc-all": true, "enc-slash": true, "double-enc": true, "dot-noise": true, "backslash": true, "nul": true, "fullwidth": true, "ctl-inside": true}

type world struct {
	c                          *ev.Ctx
	tmpl                       string // template jail
	jail                       string
	store                      *gw.Store
	g                          *gw.GW
	owner                      *s3c.Client
	root                       *s3c.Client
	canaries                   map[string]string // content -> where
	uploadID                   string
	parentUploadID, parentETag string // open upload on the key "seed"
	vid                        string // version id of named/seed/versioned (older version)
	mu                         sync.Mutex
	name                       string
	cfg                        gw.Config
}

func plant(dir, label string, canaries map[string]string) {
	content := "CANARY-" + label + "-7f3a91c2e5"
	os.WriteFile(filepath.Join(dir, canaryFile), []byte(content), 0o666)
	os.MkdirAll(filepath.Join(dir, canaryDir), 0o777)
	inner := "CANARY-" + label + "-inner-5b8d02"
	os.WriteFile(filepath.Join(dir, canaryDir, "inner.txt"), []byte(inner), 0o666)
	canaries[content] = label
	canaries[inner] = label + "/inner"
}

// build creates the template jail: jail/L1/L2/{root,versions,sidecar,iam}, canaries at every level,
// seeds buckets through a temporary (unconfined) gateway, then chowns everything to the jail uid.
func build(c *ev.Ctx, name string, cfg gw.Config) (*world, error) {
	w := &world{c: c, canaries: map[string]string{}, name: name, cfg: cfg}
	base := fx.UniqueDir("c04-" + name)
	w.tmpl = filepath.Join(base, "tmpl")
	w.jail = filepath.Join(base, "jail")
	storeBase := filepath.Join(w.jail, "L1", "L2")
	st, err := gw.NewStore(storeBase)
	if err != nil {
		return nil, err
	}
	w.store = st
	os.MkdirAll(filepath.Join(w.jail, "outside"), 0o777)
	cfg.Store = st
	cfg.Name = "c04seed"
	g, err := gw.Start(cfg)
	if err != nil {
		return nil, err
	}
	root := s3c.New(g.Addr, gw.RootAK, gw.RootSK)
	fail := func(what string, r *s3c.Resp) error {
		g.Stop()
		return fmt.Errorf("seed %s: %s %s", what, r, r.Body)
	}
	body := fmt.Sprintf(`<Account><Access>%s</Access><Secret>%s</Secret><Role>user</Role><UserID>0</UserID><GroupID>0</GroupID></Account>`, ownerAK, ownerSK)
	if r := root.Admin("/create-user", "", []byte(body)); r.Status != 201 {
		return nil, fail("user", r)
	}
	for _, b := range []string{named, victim} {
		if r := root.CreateBucket(b); !r.OK() {
			return nil, fail("bucket", r)
		}
	}
	if r := root.Admin("/change-bucket-owner", s3c.Q("bucket", named, "owner", ownerAK), nil); !r.OK() {
		return nil, fail("change owner", r)
	}
	if cfg.Versioning {
		root.PutBucketVersioning(named, "Enabled")
		root.PutBucketVersioning(victim, "Enabled")
	}
	put := func(b, k, content string) error {
		if r := root.PutObject(b, k, []byte(content), "X-Amz-Meta-Secret", "META-"+content); !r.OK() {
			return fail("put "+b+"/"+k, r)
		}
		w.canaries[content] = b + "/" + k
		return nil
	}
	for _, e := range [][3]string{{named, "seed/a.txt", "SEEDOBJ-named-a-91c3"}, {named, "seed/b.txt", "SEEDOBJ-named-b-77aa"}, {named, "top.txt", "SEEDOBJ-named-top-1d2e"},
		{victim, canaryFile, "CANARY-victim-bucket-object-88ee"}, {victim, "secret/deep.txt", "CANARY-victim-deep-3c3c"}} {
		if err := put(e[0], e[1], e[2]); err != nil {
			return nil, err
		}
	}
	// objects of the named bucket are not secrets for its owner
	for k, v := range w.canaries {
		if strings.HasPrefix(v, named+"/") {
			delete(w.canaries, k)
		}
	}
	if cfg.Versioning {
		r1 := root.PutObject(named, "seed/versioned", []byte("SEEDOBJ-v1"))
		root.PutObject(named, "seed/versioned", []byte("SEEDOBJ-v2"))
		w.vid = r1.Header.Get("X-Amz-Version-Id")
		rv := root.PutObject(victim, "vobj", []byte("CANARY-victim-version-1-aa01"))
		root.PutObject(victim, "vobj", []byte("CANARY-victim-version-2-aa02"))
		w.canaries["CANARY-victim-version-1-aa01"] = "victim/vobj@" + rv.Header.Get("X-Amz-Version-Id")
		w.canaries["CANARY-victim-version-2-aa02"] = "victim/vobj"
	}
	id, r := root.CreateMPU(named, "mpu/key")
	if !r.OK() {
		return nil, fail("mpu", r)
	}
	w.uploadID = id
	root.UploadPart(named, "mpu/key", id, 1, []byte("PARTDATA-named"))
	// an upload on the key "seed", which other objects have as their directory (seed/a.txt, ...)
	if pid, pr := root.CreateMPU(named, "seed"); pr.OK() {
		if up := root.UploadPart(named, "seed", pid, 1, []byte("PARTDATA-parent")); up.OK() {
			w.parentUploadID, w.parentETag = pid, strings.Trim(up.Header.Get("Etag"), `"`)
		}
	}
	vid, r2 := root.CreateMPU(victim, "mpu/vkey")
	if r2.OK() {
		root.UploadPart(victim, "mpu/vkey", vid, 1, []byte("CANARY-victim-part-6d6d"))
		w.canaries["CANARY-victim-part-6d6d"] = "victim upload part"
	}
	g.Stop()
	// canaries at every level
	plant(w.jail, "jail", w.canaries)
	plant(filepath.Join(w.jail, "outside"), "outside", w.canaries)
	plant(filepath.Join(w.jail, "L1"), "L1", w.canaries)
	plant(storeBase, "L2-storebase", w.canaries)
	plant(st.Root, "gateway-root", w.canaries)
	plant(st.VerDir, "versions-dir", w.canaries)
	plant(st.Sidecar, "sidecar-dir", w.canaries)
	plant(st.IAMDir, "iam-dir", w.canaries)
	w.canaries[ownerSK] = "iam secret of " + ownerAK
	// give the tree to the jail uid (canaries on purpose too, so that a confinement bug is not masked by EPERM)
	if err := filepath.Walk(w.jail, func(p string, _ os.FileInfo, err error) error {
		if err != nil {
			return err
		}
		return os.Lchown(p, jailUID, jailUID)
	}); err != nil {
		return nil, err
	}
	os.Chmod(base, 0o755)
	if err := os.Rename(w.jail, w.tmpl); err != nil {
		return nil, err
	}
	return w, w.restore()
}

// restore re-creates the jail from the template and (re)starts the confined gateway.
func (w *world) restore() error {
	if w.g != nil {
		w.g.Stop()
		w.g = nil
	}
	os.RemoveAll(w.jail)
	if err := snap.CopyTree(w.tmpl, w.jail); err != nil {
		return err
	}
	cfg := w.cfg
	cfg.Store = w.store
	cfg.Name = "c04" + w.name
	cfg.UID = jailUID
	cfg.MemLimitMB = 4096
	g, err := gw.Start(cfg)
	if err != nil {
		return err
	}
	w.g = g
	w.owner = s3c.New(g.Addr, ownerAK, ownerSK)
	w.owner.Log = g
	w.root = s3c.New(g.Addr, gw.RootAK, gw.RootSK)
	w.root.Log = g
	return nil
}

// attempt is one hostile request.
type attempt struct {
	param string // parameter class
	op    string // operation name
	req   *s3c.Req
	// namedBucket: the bucket whose storage the request is entitled to ("" = none: any change is outside)
	namedBucket string
	// literalKey: the object of the named bucket the request literally names (may change)
	literalKey string
	readOnly   bool
}

func canonOf(wire string) string {
	dec, err := url.QueryUnescape(wire)
	if err != nil {
		return wire
	}
	return s3c.URIEncode(dec, false)
}

// pathReq builds a request with a hostile wire path.
func pathReq(method, wirePath, query string, body []byte, hdr ...string) *s3c.Req {
	var h s3c.H
	for i := 0; i+1 < len(hdr); i += 2 {
		h = append(h, [2]string{hdr[i], hdr[i+1]})
	}
	return &s3c.Req{Method: method, Path: wirePath, CanonPath: canonOf(wirePath), Query: query, Body: body, Header: h}
}

func (w *world) attempts(sp spelling, depth int) []attempt {
	var out []attempt
	upW := strings.Repeat(sp.wire, depth)
	upT := strings.Repeat(sp.text, depth)
	fileW, dirW := upW+canaryFile, upW+canaryDir
	fileT, dirT := upT+canaryFile, upT+canaryDir
	nb := "/" + named + "/"
	tagBody := s3c.TaggingXML(map[string]string{"k": "v"})
	md5 := func(b []byte) string { return s3c.MD5B64(b) }
	add := func(param, op string, r *s3c.Req, nbk, lit string, ro bool) {
		out = append(out, attempt{param, op, r, nbk, lit, ro})
	}
	// --- key in path
	add("key", "GetObject", pathReq("GET", nb+fileW, "", nil), named, "", true)
	add("key", "HeadObject", pathReq("HEAD", nb+fileW, "", nil), named, "", true)
	add("key", "PutObject", pathReq("PUT", nb+fileW, "", []byte("OVERWRITTEN-BY-C04")), named, "", false)
	add("key", "PutObject-new", pathReq("PUT", nb+upW+"zq-created-by-c04.txt", "", []byte("CREATED-BY-C04")), named, "", false)
	add("key", "PutObject-dir", pathReq("PUT", nb+upW+"zq-createddir-by-c04/", "", nil), named, "", false)
	add("key", "DeleteObject", pathReq("DELETE", nb+fileW, "", nil), named, "", false)
	add("key", "DeleteObject-dir", pathReq("DELETE", nb+dirW+"/", "", nil), named, "", false)
	add("key", "GetObjectTagging", pathReq("GET", nb+fileW, "tagging=", nil), named, "", true)
	add("key", "PutObjectTagging", pathReq("PUT", nb+fileW, "tagging=", tagBody, "Content-MD5", md5(tagBody)), named, "", false)
	add("key", "DeleteObjectTagging", pathReq("DELETE", nb+fileW, "tagging=", nil), named, "", false)
	add("key", "GetObjectAttributes", pathReq("GET", nb+fileW, "attributes=", nil, "X-Amz-Object-Attributes", "ETag,ObjectSize"), named, "", true)
	add("key", "GetObjectAcl", pathReq("GET", nb+fileW, "acl=", nil), named, "", true)
	add("key", "CreateMultipartUpload", pathReq("POST", nb+fileW, "uploads=", nil), named, "", false)
	add("key", "CopyObject-dest", pathReq("PUT", nb+fileW, "", nil, "X-Amz-Copy-Source", named+"/top.txt"), named, "", false)
	add("key", "ListParts", pathReq("GET", nb+fileW, s3c.Q("uploadId", w.uploadID), nil), named, "", true)
	// a different object of the same bucket through a resolving key
	add("key-same-bucket", "GetObject", pathReq("GET", nb+"x/"+sp.wire+"seed/a.txt", "", nil), named, "x/"+sp.text+"seed/a.txt", true)
	add("key-same-bucket", "DeleteObject", pathReq("DELETE", nb+"x/"+sp.wire+"seed/a.txt", "", nil), named, "x/"+sp.text+"seed/a.txt", false)
	add("key-same-bucket", "PutObject", pathReq("PUT", nb+"x/"+sp.wire+"seed/a.txt", "", []byte("REPLACED-BY-C04")), named, "x/"+sp.text+"seed/a.txt", false)
	// a key with an empty segment is another key than the one without it
	if depth == 1 && sp.name == "raw" {
		add("key-empty-segment", "PutObject", pathReq("PUT", nb+"seed//a.txt", "", []byte("REPLACED-BY-C04")), named, "seed//a.txt", false)
		add("key-empty-segment", "DeleteObject", pathReq("DELETE", nb+"seed//b.txt", "", nil), named, "seed//b.txt", false)
		add("key-empty-segment", "GetObject", pathReq("GET", nb+"seed//a.txt", "", nil), named, "seed//a.txt", true)
	}
	// a key that other objects have as their directory: completing an upload onto it (the one operation that puts a
	// file there without the "is a directory" test of PutObject) may fail or not - the objects below it stay
	if depth == 1 && sp.name == "raw" && w.parentUploadID != "" {
		cb := s3c.CompleteXML([]s3c.Part{{N: 1, ETag: w.parentETag}})
		add("key-is-directory-of-others", "CompleteMultipartUpload", &s3c.Req{Method: "POST", Path: nb + "seed", Query: s3c.Q("uploadId", w.parentUploadID), Body: cb}, named, "seed", false)
		add("key-is-directory-of-others", "CopyObject-dest", &s3c.Req{Method: "PUT", Path: nb + "seed", Header: s3c.H{{"X-Amz-Copy-Source", named + "/top.txt"}}}, named, "seed", false)
		add("key-is-directory-of-others", "PutObject", &s3c.Req{Method: "PUT", Path: nb + "seed", Body: []byte("REPLACED-BY-C04")}, named, "seed", false)
		add("key-is-directory-of-others", "DeleteObject", &s3c.Req{Method: "DELETE", Path: nb + "seed"}, named, "seed", false)
	}
	// --- bucket in path
	bw := "/" + upW
	add("bucket", "ListObjects", pathReq("GET", bw, "", nil), "", "", true)
	add("bucket", "ListObjectsV2", pathReq("GET", bw, "list-type=2", nil), "", "", true)
	add("bucket", "HeadBucket", pathReq("HEAD", bw, "", nil), "", "", true)
	add("bucket", "GetObject-via-bucket", pathReq("GET", bw+canaryFile, "", nil), "", "", true)
	add("bucket", "GetObject-via-bucket2", pathReq("GET", bw+canaryDir+"/inner.txt", "", nil), "", "", true)
	add("bucket", "PutObject-via-bucket", pathReq("PUT", bw+canaryDir+"/zq-written-by-c04.txt", "", []byte("CREATED-BY-C04")), "", "", false)
	add("bucket", "DeleteObject-via-bucket", pathReq("DELETE", bw+canaryDir+"/inner.txt", "", nil), "", "", false)
	add("bucket", "DeleteBucket", pathReq("DELETE", bw+canaryDir, "", nil), "", "", false)
	add("bucket", "CreateBucket", pathReq("PUT", bw+"zq-bucket-by-c04", "", nil), "", "", false)
	add("bucket", "GetBucketAcl", pathReq("GET", bw+canaryDir, "acl=", nil), "", "", true)
	add("bucket", "PutBucketTagging", pathReq("PUT", bw+canaryDir, "tagging=", tagBody, "Content-MD5", md5(tagBody)), "", "", false)
	add("bucket", "ListVersions", pathReq("GET", bw+canaryDir, "versions=", nil), "", "", true)
	// --- copy source
	cs := func(src string) *s3c.Req {
		return &s3c.Req{Method: "PUT", Path: nb + "copied-by-c04", Header: s3c.H{{"X-Amz-Copy-Source", src}}}
	}
	add("copy-source-key", "CopyObject", cs(named+"/"+fileW), named, "copied-by-c04", false)
	add("copy-source-key", "CopyObject-text", cs(named+"/"+fileT), named, "copied-by-c04", false)
	add("copy-source-bucket", "CopyObject", cs(upW+canaryFile), named, "copied-by-c04", false)
	add("copy-source-bucket", "CopyObject-slash", cs("/"+upW+canaryFile), named, "copied-by-c04", false)
	add("copy-source-other-bucket", "CopyObject", cs(named+"/"+sp.wire+victim+"/"+canaryFile), named, "copied-by-c04", false)
	upc := func(src string) *s3c.Req {
		return &s3c.Req{Method: "PUT", Path: nb + "mpu/key", Query: s3c.Q("partNumber", "2", "uploadId", w.uploadID), Header: s3c.H{{"X-Amz-Copy-Source", src}}}
	}
	add("copy-source-key", "UploadPartCopy", upc(named+"/"+fileW), named, "mpu/key", false)
	add("copy-source-key", "UploadPartCopy-text", upc(named+"/"+fileT), named, "mpu/key", false)
	add("copy-source-bucket", "UploadPartCopy", upc(upW+canaryFile), named, "mpu/key", false)
	add("copy-source-other-bucket", "UploadPartCopy", upc(named+"/"+sp.wire+victim+"/"+canaryFile), named, "mpu/key", false)
	// version ids are resolved four directories below <versions>/<bucket> (hashed key path): go deeper too.
	// The header value is url-decoded once by the gateway, so both spellings are sent.
	deepW, deepT := strings.Repeat(sp.wire, depth+4), strings.Repeat(sp.text, depth+4)
	for _, src := range []string{"seed/versioned", "top.txt"} {
		for _, v := range []string{fileT, fileW, deepT + canaryFile, deepW + canaryFile, deepT + victim + "/" + canaryFile} {
			add("copy-source-versionId", "CopyObject", cs(named+"/"+src+"?versionId="+v), named, "copied-by-c04", false)
			add("copy-source-versionId", "UploadPartCopy", upc(named+"/"+src+"?versionId="+v), named, "mpu/key", false)
		}
	}
	// --- names of user metadata: a header name cannot carry '/', a query parameter of a presigned URL can
	for _, mn := range []string{"X-Amz-Meta-" + upT + "zq-meta-by-c04", "x-amz-meta-/" + upT + "outside/zq-meta-by-c04", "x-amz-meta-x/" + upT + victim + "/" + canaryFile} {
		add("metadata-name", "PutObject-presigned", &s3c.Req{Method: "PUT", Path: nb + "meta-target", Query: s3c.Q(mn, "META-BY-C04"), Presign: true, Body: []byte("x")}, named, "meta-target", false)
		add("metadata-name", "CreateMultipartUpload-presigned", &s3c.Req{Method: "POST", Path: nb + "meta-mpu", Query: "uploads=&" + s3c.Q(mn, "META-BY-C04"), Presign: true}, named, "meta-mpu", false)
		add("metadata-name", "PutObject-header", &s3c.Req{Method: "PUT", Path: nb + "meta-target", Header: s3c.H{{mn, "META-BY-C04"}}, Body: []byte("x")}, named, "meta-target", false)
	}
	// --- listing parameters
	for _, p := range []string{"prefix", "marker", "start-after", "continuation-token", "delimiter"} {
		for _, v := range []string{upT, dirT + "/", upT + victim + "/"} {
			add("list-"+p, "ListObjectsV2", &s3c.Req{Method: "GET", Path: "/" + named, Query: "list-type=2&" + s3c.Q(p, v)}, named, "", true)
			add("list-"+p, "ListObjects", &s3c.Req{Method: "GET", Path: "/" + named, Query: s3c.Q(p, v)}, named, "", true)
		}
	}
	for _, p := range []string{"prefix", "key-marker", "version-id-marker"} {
		add("list-"+p, "ListObjectVersions", &s3c.Req{Method: "GET", Path: "/" + named, Query: "versions=&" + s3c.Q(p, upT)}, named, "", true)
	}
	for _, p := range []string{"prefix", "key-marker", "upload-id-marker"} {
		add("list-"+p, "ListMultipartUploads", &s3c.Req{Method: "GET", Path: "/" + named, Query: "uploads=&" + s3c.Q(p, upT)}, named, "", true)
	}
	// --- versionId
	for _, v := range []string{fileT, dirT + "/inner.txt", upT + victim + "/vobj", strings.Repeat(sp.text, depth+4) + canaryFile} {
		add("versionId", "GetObject", &s3c.Req{Method: "GET", Path: nb + "seed/versioned", Query: s3c.Q("versionId", v)}, named, "seed/versioned", true)
		add("versionId", "HeadObject", &s3c.Req{Method: "HEAD", Path: nb + "seed/versioned", Query: s3c.Q("versionId", v)}, named, "seed/versioned", true)
		add("versionId", "DeleteObject", &s3c.Req{Method: "DELETE", Path: nb + "seed/versioned", Query: s3c.Q("versionId", v)}, named, "seed/versioned", false)
		add("versionId", "GetObjectTagging", &s3c.Req{Method: "GET", Path: nb + "seed/versioned", Query: "tagging=&" + s3c.Q("versionId", v)}, named, "seed/versioned", true)
		add("versionId", "GetObjectAttributes", &s3c.Req{Method: "GET", Path: nb + "seed/versioned", Query: "attributes=&" + s3c.Q("versionId", v), Header: s3c.H{{"X-Amz-Object-Attributes", "ETag,ObjectSize"}}}, named, "seed/versioned", true)
		add("versionId", "GetObjectRetention", &s3c.Req{Method: "GET", Path: nb + "seed/versioned", Query: "retention=&" + s3c.Q("versionId", v)}, named, "seed/versioned", true)
		add("versionId", "GetObjectLegalHold", &s3c.Req{Method: "GET", Path: nb + "seed/versioned", Query: "legal-hold=&" + s3c.Q("versionId", v)}, named, "seed/versioned", true)
		lh := []byte(`<LegalHold xmlns="http://s3.amazonaws.com/doc/2006-03-01/"><Status>ON</Status></LegalHold>`)
		add("versionId", "PutObjectLegalHold", &s3c.Req{Method: "PUT", Path: nb + "seed/versioned", Query: "legal-hold=&" + s3c.Q("versionId", v), Body: lh, Header: s3c.H{{"Content-MD5", md5(lh)}}}, named, "seed/versioned", false)
	}
	// --- uploadId / partNumber
	upIDs := []string{dirT, fileT, upT + victim}
	if depth == 1 && sp.name == "raw" {
		// ids that name no upload but the place where uploads are kept, or more than one upload
		upIDs = append(upIDs, "", ".", "./", "*", w.uploadID[:len(w.uploadID)/2], w.uploadID+"/", w.uploadID+"/.", "./"+w.uploadID+"/../")
	}
	for _, v := range upIDs {
		add("uploadId", "UploadPart", &s3c.Req{Method: "PUT", Path: nb + "mpu/key", Query: s3c.Q("partNumber", "1", "uploadId", v), Body: []byte("PARTDATA-BY-C04")}, named, "mpu/key", false)
		add("uploadId", "ListParts", &s3c.Req{Method: "GET", Path: nb + "mpu/key", Query: s3c.Q("uploadId", v)}, named, "mpu/key", true)
		add("uploadId", "AbortMultipartUpload", &s3c.Req{Method: "DELETE", Path: nb + "mpu/key", Query: s3c.Q("uploadId", v)}, named, "mpu/key", false)
		cb := s3c.CompleteXML([]s3c.Part{{N: 1, ETag: "d41d8cd98f00b204e9800998ecf8427e"}})
		add("uploadId", "CompleteMultipartUpload", &s3c.Req{Method: "POST", Path: nb + "mpu/key", Query: s3c.Q("uploadId", v), Body: cb}, named, "mpu/key", false)
	}
	add("partNumber", "UploadPart", &s3c.Req{Method: "PUT", Path: nb + "mpu/key", Query: s3c.Q("partNumber", fileT, "uploadId", w.uploadID), Body: []byte("PARTDATA-BY-C04")}, named, "mpu/key", false)
	// --- DeleteObjects body
	del := func(inner string) *s3c.Req {
		b := []byte(`<Delete xmlns="http://s3.amazonaws.com/doc/2006-03-01/">` + inner + `</Delete>`)
		return &s3c.Req{Method: "POST", Path: "/" + named, Query: "delete=", Body: b, Header: s3c.H{{"Content-MD5", md5(b)}}}
	}
	add("delete-objects-key", "DeleteObjects", del("<Object><Key>"+s3c.XMLEsc(fileT)+"</Key></Object>"), named, "", false)
	add("delete-objects-key", "DeleteObjects-dir", del("<Object><Key>"+s3c.XMLEsc(dirT+"/inner.txt")+"</Key></Object>"), named, "", false)
	add("delete-objects-versionId", "DeleteObjects", del("<Object><Key>seed/versioned</Key><VersionId>"+s3c.XMLEsc(fileT)+"</VersionId></Object>"), named, "seed/versioned", false)
	// one batch naming a key several times: every ENTRY has to be checked, not every distinct key
	ent := func(k, v string) string {
		if v == "" {
			return "<Object><Key>" + s3c.XMLEsc(k) + "</Key></Object>"
		}
		return "<Object><Key>" + s3c.XMLEsc(k) + "</Key><VersionId>" + s3c.XMLEsc(v) + "</VersionId></Object>"
	}
	deepVT := strings.Repeat(sp.text, depth+4)
	for _, hostile := range []string{fileT, deepVT + canaryFile, deepVT + victim + "/" + canaryFile} {
		add("delete-objects-versionId", "DeleteObjects-key-repeated", del(ent("seed/versioned", w.vid)+ent("seed/versioned", hostile)), named, "seed/versioned", false)
		add("delete-objects-versionId", "DeleteObjects-key-repeated-plain-first", del(ent("seed/a.txt", "")+ent("seed/a.txt", hostile)), named, "seed/a.txt", false)
	}
	add("delete-objects-key", "DeleteObjects-key-repeated", del(ent("seed/b.txt", "")+ent(fileT, "")+ent("seed/b.txt", "")), named, "seed/b.txt", false)
	return out
}

func (w *world) adminAttempts(sp spelling, depth int) []attempt {
	upT := strings.Repeat(sp.text, depth)
	var out []attempt
	out = append(out, attempt{"admin-bucket", "ChangeBucketOwner", &s3c.Req{Method: "PATCH", Path: "/change-bucket-owner", Query: s3c.Q("bucket", upT+canaryDir, "owner", ownerAK)}, "", "", false})
	out = append(out, attempt{"admin-bucket", "ChangeBucketOwner-victimobj", &s3c.Req{Method: "PATCH", Path: "/change-bucket-owner", Query: s3c.Q("bucket", victim+"/secret", "owner", ownerAK)}, "", "", false})
	return out
}

func inNamed(rel, bucket string) bool {
	if bucket == "" {
		return false
	}
	for _, p := range []string{"L1/L2/root/" + bucket, "L1/L2/versions/" + bucket, "L1/L2/sidecar/" + bucket} {
		if rel == p || strings.HasPrefix(rel, p+"/") {
			return true
		}
	}
	return false
}

// inNamed: is rel part of the storage of the named bucket? With the sidecar store the attributes of archived
// versions live under <sidecar>/<absolute path of the versioning directory>/<bucket>/ (the store is addressed with
// the absolute path of the versioning directory as its "bucket"); the directories leading there are created on
// first use.
func (w *world) inNamed(rel, bucket string) bool {
	if inNamed(rel, bucket) {
		return true
	}
	if bucket == "" {
		return false
	}
	mirror := "L1/L2/sidecar" + filepath.Join(w.jail, "L1", "L2", "versions", bucket)
	return rel == mirror || strings.HasPrefix(rel, mirror+"/") || strings.HasPrefix(mirror, rel+"/")
}

func (w *world) run(id string, a attempt, who string, spName string, depth int) {
	c := w.c
	cl := w.owner
	if who == "root" {
		cl = w.root
	}
	before, err := snap.Take(w.jail, nil)
	if err != nil {
		c.Inconclusive("snapshot: " + err.Error())
		return
	}
	resp := cl.Do(a.req)
	c.Eval(1)
	if os.Getenv("C04_DEBUG") != "" && a.param == os.Getenv("C04_DEBUG") {
		fmt.Fprintf(os.Stderr, "C04_DEBUG %s %s %s d%d %s q=%s -> %s %.120s\n", w.name, a.op, spName, depth, who, a.req.Query, resp.String(), resp.Body)
	}
	sigBase := fmt.Sprintf("%s:%s:%s", a.param, a.op, who)
	det := map[string]any{"param": a.param, "op": a.op, "caller": who, "spelling": spName, "depth": depth, "method": a.req.Method,
		"wire_path": a.req.Path, "query": a.req.Query, "headers": fmt.Sprint(a.req.Header), "status": resp.String()}
	if resp.Err != nil {
		if !w.g.Alive() {
			cr := w.g.ScrapeCrash()
			msg := "exited"
			if cr != nil {
				msg = cr.Message + " @ " + cr.TopFrame
			}
			c.Observe("gateway died (C20's business): " + sigBase + ": " + msg)
			if err := w.restore(); err != nil {
				c.Inconclusive("restore: " + err.Error())
			}
			return
		}
		c.Observe("transport error / malformed request line refused by the HTTP layer")
		return
	}
	after, _ := snap.Take(w.jail, nil)
	reached := !(resp.Status == 403 && (resp.ErrCode() == "SignatureDoesNotMatch" || resp.ErrCode() == "InvalidAccessKeyId"))
	if reached {
		c.Distinct(fmt.Sprintf("%s|%s|%s|d%d|%s", a.param, a.op, spName, depth, who))
	}
	changed := false
	// (1) everything outside the named bucket unchanged, (3) siblings inside unchanged
	var outside, sibling []string
	for _, d := range snap.Diff(before, after) {
		changed = true
		rel := strings.Fields(d)[1]
		switch {
		case !w.inNamed(rel, a.namedBucket):
			outside = append(outside, d)
		case strings.Contains(rel, "/.sgwtmp"):
			// bookkeeping of the named bucket; but a request that names another upload id (or none) must leave the
			// upload that is in progress alone
			if a.param == "uploadId" && strings.Contains(rel, w.uploadID) && !strings.Contains(a.req.Query, "uploadId="+w.uploadID+"&") && !strings.HasSuffix(a.req.Query, "uploadId="+w.uploadID) {
				sibling = append(sibling, d)
			}
		case strings.HasPrefix(rel, "L1/L2/root/"+named+"/seed") || rel == "L1/L2/root/"+named+"/top.txt":
			lit := "L1/L2/root/" + named + "/" + a.literalKey
			if rel != lit && !(strings.HasPrefix(lit, rel+"/")) {
				sibling = append(sibling, d)
			}
		}
	}
	// (1b) data flow: nothing the request stored inside the named bucket may hold content from elsewhere
	// (a copy whose source resolved outside the bucket it names)
	for _, d := range snap.Diff(before, after) {
		if d[0] == '-' {
			continue
		}
		rel := strings.Fields(d)[1]
		if !w.inNamed(rel, a.namedBucket) {
			continue
		}
		full := filepath.Join(w.jail, rel)
		if fi, err := os.Lstat(full); err != nil || !fi.Mode().IsRegular() || fi.Size() > 1<<20 {
			continue
		}
		data, err := os.ReadFile(full)
		if err != nil {
			continue
		}
		for content, where := range w.canaries {
			if strings.Contains(string(data), content) {
				det["copied_into"] = rel
				det["copied_from"] = where
				loc := "inside-root"
				if !strings.HasPrefix(where, "victim") && where != "gateway-root" && !strings.HasPrefix(where, "gateway-root/") {
					loc = "outside-root"
				}
				c.Violation(sigBase+":foreign-data-stored-in-bucket:"+loc, id, det)
				break
			}
		}
	}
	if len(outside) > 0 {
		det["changed_outside"] = trimList(outside, 6)
		kind := "changed-outside"
		for _, d := range outside {
			if strings.HasPrefix(d, "- ") {
				kind = "deleted-outside"
			} else if strings.HasPrefix(d, "+ ") && kind != "deleted-outside" {
				kind = "created-outside"
			}
		}
		where := "inside-root"
		for _, d := range outside {
			rel := strings.Fields(d)[1]
			if !strings.HasPrefix(rel, "L1/L2/root/") {
				where = "outside-root"
			}
		}
		c.Violation(sigBase+":"+kind+":"+where, id, det)
	}
	if len(sibling) > 0 {
		det["changed_sibling"] = trimList(sibling, 4)
		what := ":other-object-of-same-bucket-changed"
		if a.param == "uploadId" {
			what = ":upload-the-request-did-not-name-changed"
		}
		c.Violation(sigBase+what, id, det)
	}
	// (2) no canary content in the response
	hay := string(resp.Body)
	for k, vs := range resp.Header {
		hay += "\n" + k + ": " + strings.Join(vs, ",")
	}
	for content, where := range w.canaries {
		if strings.Contains(hay, content) {
			det["disclosed"] = where
			loc := "inside-root"
			if !strings.HasPrefix(where, "victim") && where != "gateway-root" && !strings.HasPrefix(where, "gateway-root/") {
				loc = "outside-root"
			}
			c.Violation(sigBase+":disclosed:"+loc, id, det)
			break
		}
	}
	// listing-style disclosure: names of planted entries among the listed keys / common prefixes
	// (the echoed request parameters - Prefix, Marker ... - are not listings)
	if a.readOnly && resp.OK() {
		if lr, err := s3c.ParseList(resp.Body); err == nil {
			var names []string
			for _, e := range lr.Contents {
				names = append(names, e.Key)
			}
			for _, e := range lr.CommonPrefixes {
				names = append(names, e.Prefix)
			}
			for _, nm := range names {
				if a.namedBucket == "" {
					det["listed"] = nm
					c.Violation(sigBase+":listed-a-directory-that-is-no-bucket", id, det)
					break
				}
				if strings.Contains(nm, canaryFile) || strings.Contains(nm, canaryDir) || strings.Contains(nm, "users.json") || strings.HasPrefix(nm, victim+"/") || strings.Contains(nm, "/"+victim+"/") {
					det["listed"] = nm
					c.Violation(sigBase+":listed-names-outside-bucket", id, det)
					break
				}
			}
		}
	}
	// (4) a success on a hostile key in the named bucket must have treated it as an opaque name
	if resp.OK() && a.param == "key-empty-segment" && a.op == "GetObject" && strings.Contains(hay, "SEEDOBJ-named-a-91c3") {
		c.Violation(sigBase+":resolved-to-another-object", id, det)
	}
	if resp.OK() && a.param == "key-same-bucket" && a.op == "GetObject" {
		if strings.Contains(hay, "SEEDOBJ-named-a-91c3") {
			c.Violation(sigBase+":resolved-to-another-object", id, det)
		}
	}
	if changed {
		if err := w.restore(); err != nil {
			c.Inconclusive("restore: " + err.Error())
		}
	}
}

func trimList(l []string, n int) []string {
	if len(l) > n {
		return append(l[:n:n], fmt.Sprintf("... %d more", len(l)-n))
	}
	return l
}

func lane(c *ev.Ctx, name string, cfg gw.Config, depths []int, sps []spelling) {
	w, err := build(c, name, cfg)
	if err != nil {
		c.Inconclusive("build jail: " + err.Error())
		return
	}
	defer func() {
		if w.g != nil {
			w.g.Stop()
		}
		os.RemoveAll(filepath.Dir(w.jail))
	}()
	// positive control: the confined gateway serves the named bucket to its owner
	if r := w.owner.GetObject(named, "top.txt"); !r.OK() {
		c.Inconclusive("control GET failed: " + r.String())
		return
	}
	n := 0
	for _, sp := range sps {
		for _, d := range depths {
			atts := w.attempts(sp, d)
			for i, a := range atts {
				for _, who := range []string{"owner", "root"} {
					if who == "root" && !c.Thorough() && (i%3 != 0) {
						continue
					}
					id := fmt.Sprintf("%s/%s/d%d/%d/%s", name, sp.name, d, i, who)
					if !c.Want(id) {
						continue
					}
					w.run(id, a, who, sp.name, d)
					n++
					if n%400 == 1 {
						c.Sample(map[string]any{"case": id, "param": a.param, "op": a.op, "wire_path": a.req.Path, "query": a.req.Query, "headers": fmt.Sprint(a.req.Header)})
					}
				}
			}
			for i, a := range w.adminAttempts(sp, d) {
				id := fmt.Sprintf("%s/%s/d%d/admin%d", name, sp.name, d, i)
				if c.Want(id) {
					w.run(id, a, "root", sp.name, d)
				}
			}
		}
	}
	// absolute paths
	abs := filepath.Join(w.jail, "outside", canaryFile)
	for i, a := range []attempt{
		{"key-absolute", "GetObject", pathReq("GET", "/"+named+"/"+s3c.URIEncode(abs, true), "", nil), named, "", true},
		{"key-absolute", "GetObject-raw", pathReq("GET", "/"+named+"/"+abs, "", nil), named, "", true},
		{"key-absolute", "DeleteObject", pathReq("DELETE", "/"+named+"/"+s3c.URIEncode(abs, true), "", nil), named, "", false},
		{"bucket-absolute", "GetObject", pathReq("GET", "/"+s3c.URIEncode(filepath.Dir(abs), true)+"/"+canaryFile, "", nil), "", "", true},
		{"copy-source-absolute", "CopyObject", &s3c.Req{Method: "PUT", Path: "/" + named + "/copied-by-c04", Header: s3c.H{{"X-Amz-Copy-Source", abs}}}, named, "copied-by-c04", false},
		{"versionId-absolute", "GetObject", &s3c.Req{Method: "GET", Path: "/" + named + "/seed/versioned", Query: s3c.Q("versionId", abs)}, named, "seed/versioned", true},
		{"uploadId-absolute", "AbortMultipartUpload", &s3c.Req{Method: "DELETE", Path: "/" + named + "/mpu/key", Query: s3c.Q("uploadId", filepath.Join(w.jail, "outside", canaryDir))}, named, "mpu/key", false},
	} {
		id := fmt.Sprintf("%s/absolute/%d", name, i)
		if c.Want(id) {
			w.run(id, a, "owner", "absolute", 0)
		}
	}
}

func Run(c *ev.Ctx) int {
	c.Assume("the gateway runs as throw-away uid 4242 in a scratch jail; canaries are owned by that uid on purpose so that a confinement bug shows instead of being masked by EPERM")
	c.Assume("callers: the non-admin owner of the named bucket, and root; a request counts as non-trivial only if it got past signature/URI checks")
	depths := []int{1, 2, 4, 6}
	sps := []spelling{}
	for _, s := range spellings {
		if c.Thorough() || quickSpellings[s.name] {
			sps = append(sps, s)
		}
	}
	if c.Thorough() {
		depths = []int{1, 2, 3, 4, 5, 6, 7, 8}
	}
	var wg sync.WaitGroup
	// split spellings over workers, each with its own jail + gateway
	workers := 4
	if c.Thorough() {
		workers = 8
	}
	for wi := 0; wi < workers; wi++ {
		var mine []spelling
		for i, s := range sps {
			if i%workers == wi {
				mine = append(mine, s)
			}
		}
		if len(mine) == 0 {
			continue
		}
		cfg := gw.Config{Versioning: true}
		if wi%2 == 1 && (c.Thorough() || wi == 1) {
			// the sidecar store turns object names AND attribute names into paths; it always gets the plain
			// spelling too (the only one that is a traversal in values that are decoded once)
			cfg.Sidecar = true
			hasRaw := false
			for _, s := range mine {
				hasRaw = hasRaw || s.name == "raw"
			}
			if !hasRaw {
				mine = append([]spelling{spellings[0]}, mine...)
			}
		}
		wg.Add(1)
		go func(wi int, mine []spelling, cfg gw.Config) {
			defer wg.Done()
			lane(c, fmt.Sprintf("w%d", wi), cfg, depths, mine)
		}(wi, mine, cfg)
	}
	wg.Wait()
	return c.Finish("every path-like parameter (bucket, key, copy source bucket/key/versionId, prefix/marker/start-after/continuation-token/delimiter/key-marker/version-id-marker/upload-id-marker, versionId, uploadId, partNumber, DeleteObjects keys and version ids, admin bucket) x spelling of '..' (raw, percent-encoded variants, double-encoded, noise, backslash, NUL, full-width, overlong) x depth x operation x caller; distinct = (parameter, operation, spelling, depth, caller) that got past signature/URI checks", 100)
}
