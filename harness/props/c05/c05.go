// Package c05: per-key reads and writes are atomic and linearizable.
//
// Lane A (decides): deterministic schedules. A request P is held at each of the
// hook points it passes (learned from a trace run) while an observer request O
// runs to completion through the same or another gateway process on the same
// storage; then P is released. Every read is checked by the atomicity monitor
// (body, length, ETag, metadata all of one write) and the 3-4 operation history
// is checked against a register model with porcupine.
// Lane B (reach): stress histories with PRNG delays at the hook points.
package c05

import (
	"crypto/md5"
	"encoding/hex"
	"encoding/xml"
	"fmt"
	"math/rand"
	"sort"
	"strconv"
	"strings"
	"sync"
	"time"

	"github.com/anishathalye/porcupine"

	"verif/harness/internal/ev"
	"verif/harness/internal/fx"
	"verif/harness/internal/gate"
	"verif/harness/internal/gw"
	"verif/harness/internal/reg"
	"verif/harness/internal/s3c"
)

func init() { reg.Register("C05", "exploration", Run) }

// ---- unambiguous writes -------------------------------------------------------

type write struct {
	id    int
	body  []byte
	md5   string
	ctype string
	crc   string // base64 CRC32 of the body, sent as x-amz-checksum-crc32 and read back with x-amz-checksum-mode
	// twins: a write may carry the very body of an earlier write (rep = id of the first write with that body; own id
	// otherwise) - body, ETag and checksum then name the body, metadata and content type still name the write
	rep   int
	extra string // X-Amz-Meta-Extra of this write ("" = the write carries no such entry)
	cc    string // Cache-Control of this write ("" = none)
}

type writes struct {
	mu       sync.Mutex
	next     int
	byMD5    map[string]*write
	byID     map[int]*write
	byCRC    map[string]*write
	emptyRep *write
}

func newWrites() *writes {
	return &writes{byMD5: map[string]*write{}, byID: map[int]*write{}, byCRC: map[string]*write{}}
}

func (ws *writes) byIDLocked(id int) *write {
	ws.mu.Lock()
	defer ws.mu.Unlock()
	return ws.byID[id]
}

// ckMode asks for the stored checksum with a read
var ckMode = []string{"X-Amz-Checksum-Mode", "ENABLED"}

// mk creates a fresh write with an id-determined length and PRNG content.
func (ws *writes) mk(big bool) *write { return ws.mkN(big, -1) }

// mkLen creates a fresh write (own content, ETag, attributes) whose body has exactly n bytes: an overwrite that no
// comparison of sizes can tell from the write it replaces.
func (ws *writes) mkLen(n int) *write { return ws.mkN(false, n) }

func (ws *writes) mkN(big bool, fixed int) *write {
	ws.mu.Lock()
	ws.next++
	id := ws.next
	ws.mu.Unlock()
	n := 1 + (id*7919)%3001
	if big {
		n = 100000 + (id*104729)%200000
	}
	if fixed >= 0 {
		n = fixed
	}
	r := rand.New(rand.NewSource(int64(id)*2654435761 + 17))
	b := make([]byte, n)
	r.Read(b)
	// make the id readable in the body too
	copy(b, []byte(fmt.Sprintf("w%d|", id)))
	s := md5.Sum(b)
	w := &write{id: id, rep: id, body: b, md5: hex.EncodeToString(s[:]), ctype: fmt.Sprintf("application/x-w-%d", id), crc: s3c.Checksum("crc32", b)}
	w.optional()
	ws.mu.Lock()
	ws.byMD5[w.md5] = w
	ws.byID[id] = w
	ws.byCRC[w.crc] = w
	ws.mu.Unlock()
	return w
}

// mkEmpty creates a write with an empty body: all of them share body, ETag and checksum (twins of the first one)
func (ws *writes) mkEmpty() *write {
	ws.mu.Lock()
	rep := ws.emptyRep
	ws.mu.Unlock()
	if rep != nil {
		return ws.mkTwin(rep)
	}
	ws.mu.Lock()
	ws.next++
	id := ws.next
	sum := md5.Sum(nil)
	w := &write{id: id, rep: id, body: []byte{}, md5: hex.EncodeToString(sum[:]), ctype: fmt.Sprintf("application/x-w-%d", id), crc: s3c.Checksum("crc32", nil)}
	ws.byMD5[w.md5], ws.byID[id], ws.byCRC[w.crc] = w, w, w
	ws.emptyRep = w
	ws.mu.Unlock()
	w.optional()
	return w
}

// mkTwin creates a write with the body of an earlier one and its own identity; which optional attributes it carries
// is decided by its id (a write that follows one with more attributes must not inherit them).
func (ws *writes) mkTwin(of *write) *write {
	ws.mu.Lock()
	ws.next++
	id := ws.next
	w := &write{id: id, rep: of.rep, body: of.body, md5: of.md5, crc: of.crc, ctype: fmt.Sprintf("application/x-w-%d", id)}
	ws.byID[id] = w
	ws.mu.Unlock()
	w.optional()
	return w
}

// optional gives a write its id-determined optional attributes (twins, and originals that twins may follow)
func (w *write) optional() {
	if w.id%3 != 0 {
		w.extra = fmt.Sprintf("extra-of-%d", w.id)
	}
	if w.id%4 == 1 {
		w.cc = fmt.Sprintf("max-age=%d", 1000+w.id)
	}
}

func (w *write) hdr() []string {
	h := []string{"X-Amz-Meta-Wid", strconv.Itoa(w.id), "Content-Type", w.ctype, "X-Amz-Checksum-Crc32", w.crc}
	if w.extra != "" {
		h = append(h, "X-Amz-Meta-Extra", w.extra)
	}
	if w.cc != "" {
		h = append(h, "Cache-Control", w.cc)
	}
	return h
}

// ---- atomicity monitor --------------------------------------------------------

// readObs is what one read said, reduced to write ids (0 = absent, -1 = unknown/torn).
type readObs struct {
	Status  int
	Wid     int    // the agreed write id (0 absent) when consistent
	Torn    string // non-empty: description of the inconsistency
	Refused bool   // error other than 404
}

func widOfCtype(ct string) int {
	if strings.HasPrefix(ct, "application/x-w-") {
		n, err := strconv.Atoi(strings.TrimPrefix(ct, "application/x-w-"))
		if err == nil {
			return n
		}
	}
	return -1
}

func (ws *writes) judgeRead(r *s3c.Resp, head bool) readObs {
	if r.Err != nil {
		if strings.HasPrefix(r.Err.Error(), "read body") {
			// a status line and headers arrived, but the body ended before Content-Length bytes
			return readObs{Status: 200, Wid: -1, Torn: "response body shorter than its Content-Length (" + r.Raw + "): " + r.Err.Error()}
		}
		return readObs{Refused: true, Torn: ""}
	}
	if r.Status == 404 {
		return readObs{Status: 404, Wid: 0}
	}
	if r.Status != 200 {
		return readObs{Status: r.Status, Refused: true}
	}
	o := readObs{Status: 200}
	etag := strings.Trim(r.Header.Get("Etag"), `"`)
	ws.mu.Lock()
	we := ws.byMD5[etag]
	ws.mu.Unlock()
	metaW, _ := strconv.Atoi(r.Header.Get("X-Amz-Meta-Wid"))
	ctW := widOfCtype(r.Header.Get("Content-Type"))
	cl, _ := strconv.Atoi(r.Header.Get("Content-Length"))
	var parts []string
	etagW := -1
	if we != nil {
		etagW = we.id
	}
	// metadata and content type name the write; everything else is compared by the body the write carries
	repOf := func(id int) int {
		ws.mu.Lock()
		defer ws.mu.Unlock()
		if w := ws.byID[id]; w != nil {
			return w.rep
		}
		return id
	}
	if metaW != ctW {
		parts = append(parts, fmt.Sprintf("metadata belongs to write %d but the content type to write %d", metaW, ctW))
	} else {
		ws.mu.Lock()
		wm := ws.byID[metaW]
		ws.mu.Unlock()
		if wm != nil {
			if got := r.Header.Get("X-Amz-Meta-Extra"); got != wm.extra {
				parts = append(parts, fmt.Sprintf("write %d carries X-Amz-Meta-Extra %q, the read shows %q (an entry of another write)", metaW, wm.extra, got))
			}
			if got := r.Header.Get("Cache-Control"); got != wm.cc {
				parts = append(parts, fmt.Sprintf("write %d carries Cache-Control %q, the read shows %q", metaW, wm.cc, got))
			}
		}
	}
	ids := map[string]int{"etag": etagW, "meta": repOf(metaW), "ctype": repOf(ctW)}
	if ck := r.Header.Get("X-Amz-Checksum-Crc32"); ck != "" {
		// only objects written with a checksum report one (copies and multipart objects may not)
		ws.mu.Lock()
		wc := ws.byCRC[ck]
		ws.mu.Unlock()
		ids["checksum"] = -1
		if wc != nil {
			ids["checksum"] = wc.id
		}
	}
	if !head {
		s := md5.Sum(r.Body)
		ws.mu.Lock()
		wb := ws.byMD5[hex.EncodeToString(s[:])]
		ws.mu.Unlock()
		if wb == nil {
			ids["body"] = -1
			parts = append(parts, fmt.Sprintf("body(len %d) is not the complete body of any write", len(r.Body)))
		} else {
			ids["body"] = wb.id
		}
	}
	// length must belong to the same write
	ref := etagW
	if v, ok := ids["body"]; ok && v > 0 {
		ref = v
	}
	if ref > 0 {
		ws.mu.Lock()
		wr := ws.byID[ref]
		ws.mu.Unlock()
		if wr != nil && cl != len(wr.body) {
			parts = append(parts, fmt.Sprintf("Content-Length %d but write %d has %d bytes", cl, ref, len(wr.body)))
		}
	}
	first := -2
	for _, k := range []string{"body", "etag", "meta", "ctype", "checksum"} {
		v, ok := ids[k]
		if !ok {
			continue
		}
		if first == -2 {
			first = v
		} else if v != first {
			parts = append(parts, fmt.Sprintf("%s belongs to write %d but another component to write %d", k, v, first))
			break
		}
	}
	if first <= 0 {
		parts = append(parts, "components do not identify a write")
	}
	if len(parts) > 0 {
		o.Torn = strings.Join(parts, "; ") + fmt.Sprintf(" [ids=%v len=%d]", ids, cl)
		o.Wid = -1
		return o
	}
	o.Wid = metaW
	return o
}

// ---- register model -----------------------------------------------------------

type opIn struct {
	Kind string // put del read delver
	W    int
	W2   int // delver: the version being deleted (W is the one below it)
	Name string
}
type opOut struct {
	Ack bool // put/del acknowledged
	Wid int  // read result (0 absent)
	Unk bool // outcome unknown
}

var regModel = porcupine.Model{
	Init: func() interface{} { return 0 },
	Step: func(state, input, output interface{}) (bool, interface{}) {
		st := state.(int)
		in := input.(opIn)
		out := output.(opOut)
		switch in.Kind {
		case "put":
			if out.Ack {
				return true, in.W
			}
			return true, st
		case "del":
			if out.Ack {
				return true, 0
			}
			return true, st
		case "delver":
			// delete-by-version of W2: if it is the current version the one below (W) is
			// re-exposed, a non-current version disappears without changing the current view
			if out.Ack && st == in.W2 {
				return true, in.W
			}
			return true, st
		default:
			return out.Wid == st, st
		}
	},
	Equal: func(a, b interface{}) bool { return a.(int) == b.(int) },
	DescribeOperation: func(in, out interface{}) string {
		return fmt.Sprintf("%+v -> %+v", in, out)
	},
}

type clock struct{ t0 time.Time }

func (c clock) now() int64 { return int64(time.Since(c.t0)) }

// ---- lane A ------------------------------------------------------------------

type laneCfg struct {
	name   string
	noOTmp bool
}

type pKind struct {
	name      string
	versioned bool
}

var pKinds = []pKind{
	{"PUT-new", false}, {"PUT-overwrite", false}, {"PUT-overwrite-versioned", true}, {"COPY-onto", false},
	{"MPU-complete-onto", false}, {"DELETE", false}, {"DELETE-marker-versioned", true}, {"DELETE-version-promote", true},
	{"GET", false}, {"HEAD", false},
	// the object that is read is EMPTY (no byte of it is ever sent; what is then overwritten under the read is the rest)
	{"GET-empty", false}, {"HEAD-empty", false},
}
// PUTL: an overwrite with a body of exactly the length of the object that P is reading (only under a held read)
var oKinds = []string{"GET", "HEAD", "PUT", "DELETE", "LIST", "GETV", "PUTL"}

type laneA struct {
	c     *ev.Ctx
	cfg   laneCfg
	env   *fx.Env
	ctl   *gate.Ctl
	cl    [2]*s3c.Client
	ws    *writes
	seq   int
	clk   clock
	mu    sync.Mutex
	names map[string]bool
}

func (l *laneA) bucket(versioned bool) string {
	if versioned {
		return "verb"
	}
	return "plain"
}

type prepared struct {
	stableVid   string // a version id that the operation never deletes ...
	stableWid   int    // ... and the write it must keep returning
	bucket, key string
	seedW       int // state before P (0 = absent)
	run         func(cl *s3c.Client) *s3c.Resp
	in          opIn
	isRead      bool
	head        bool
}

// prepare seeds the key and returns P as a closure.
func (l *laneA) prepare(p pKind, key string) (*prepared, error) {
	cl := l.cl[0]
	b := l.bucket(p.versioned)
	pr := &prepared{bucket: b, key: key}
	put := func(w *write) error {
		r := cl.PutObject(b, key, w.body, w.hdr()...)
		if !r.OK() {
			return fmt.Errorf("seed put: %s", r)
		}
		if vid := r.Header.Get("X-Amz-Version-Id"); vid != "" && p.versioned && pr.stableVid == "" {
			// the first seeded version of a versioned case is never deleted by the operation under test
			pr.stableVid, pr.stableWid = vid, w.id
		}
		return nil
	}
	a := l.ws.mk(false)
	switch p.name {
	case "PUT-new":
		w := l.ws.mk(true)
		pr.seedW = 0
		pr.in = opIn{Kind: "put", W: w.id, Name: p.name}
		pr.run = func(c *s3c.Client) *s3c.Resp { return c.PutObject(b, key, w.body, w.hdr()...) }
	case "PUT-overwrite", "PUT-overwrite-versioned":
		if err := put(a); err != nil {
			return nil, err
		}
		w := l.ws.mk(true)
		pr.seedW = a.id
		pr.in = opIn{Kind: "put", W: w.id, Name: p.name}
		pr.run = func(c *s3c.Client) *s3c.Resp { return c.PutObject(b, key, w.body, w.hdr()...) }
	case "COPY-onto":
		if err := put(a); err != nil {
			return nil, err
		}
		w := l.ws.mk(true)
		src := key + ".src"
		if r := cl.PutObject(b, src, w.body, w.hdr()...); !r.OK() {
			return nil, fmt.Errorf("seed copy source: %s", r)
		}
		pr.seedW = a.id
		pr.in = opIn{Kind: "put", W: w.id, Name: p.name}
		pr.run = func(c *s3c.Client) *s3c.Resp { return c.CopyObject(b, src, b, key) }
	case "MPU-complete-onto":
		if err := put(a); err != nil {
			return nil, err
		}
		w := l.ws.mk(true)
		id, r := cl.CreateMPU(b, key, w.hdr()...)
		if !r.OK() {
			return nil, fmt.Errorf("create mpu: %s", r)
		}
		pr1 := cl.UploadPart(b, key, id, 1, w.body)
		if !pr1.OK() {
			return nil, fmt.Errorf("upload part: %s", pr1)
		}
		etag := strings.Trim(pr1.Header.Get("Etag"), `"`)
		// the multipart ETag differs from the content md5: register it for the monitor
		mpe := s3c.MultipartETag([][]byte{w.body})
		l.ws.mu.Lock()
		l.ws.byMD5[mpe] = w
		l.ws.mu.Unlock()
		pr.seedW = a.id
		pr.in = opIn{Kind: "put", W: w.id, Name: p.name}
		pr.run = func(c *s3c.Client) *s3c.Resp {
			return c.CompleteMPU(b, key, id, []s3c.Part{{N: 1, ETag: etag}})
		}
	case "DELETE", "DELETE-marker-versioned":
		if err := put(a); err != nil {
			return nil, err
		}
		pr.seedW = a.id
		pr.in = opIn{Kind: "del", Name: p.name}
		pr.run = func(c *s3c.Client) *s3c.Resp { return c.DeleteObject(b, key) }
	case "DELETE-version-promote":
		if err := put(a); err != nil {
			return nil, err
		}
		w2 := l.ws.mk(false)
		r := cl.PutObject(b, key, w2.body, w2.hdr()...)
		if !r.OK() {
			return nil, fmt.Errorf("seed put2: %s", r)
		}
		vid := r.Header.Get("X-Amz-Version-Id")
		if vid == "" {
			return nil, fmt.Errorf("no version id on versioned put")
		}
		pr.seedW = w2.id
		// deleting the newest version re-exposes the previous one: a "put" of write a
		pr.in = opIn{Kind: "delver", W: a.id, W2: w2.id, Name: p.name}
		pr.run = func(c *s3c.Client) *s3c.Resp { return c.DeleteObjectV(b, key, vid) }
	case "GET", "HEAD", "GET-empty", "HEAD-empty":
		big := l.ws.mk(true)
		if strings.HasSuffix(p.name, "-empty") {
			big = l.ws.mkEmpty()
		}
		if err := put(big); err != nil {
			return nil, err
		}
		pr.seedW = big.id
		pr.isRead = true
		pr.head = strings.HasPrefix(p.name, "HEAD")
		pr.in = opIn{Kind: "read", Name: p.name}
		if pr.head {
			pr.run = func(c *s3c.Client) *s3c.Resp { return c.HeadObject(b, key, ckMode...) }
		} else {
			pr.run = func(c *s3c.Client) *s3c.Resp { return c.GetObject(b, key, ckMode...) }
		}
	}
	return pr, nil
}

func ackDelete(r *s3c.Resp) bool { return r.Err == nil && (r.Status == 204 || r.Status == 200) }

// listObs interprets a ListObjectsV2 page for one key as a read.
func (l *laneA) listRead(cl *s3c.Client, b, key string) (readObs, *s3c.Resp) {
	r := cl.ListV2(b, "prefix", key)
	if !r.OK() {
		return readObs{Refused: true, Status: r.Status}, r
	}
	var lr s3c.ListResult
	if err := xml.Unmarshal(r.Body, &lr); err != nil {
		return readObs{Refused: true}, r
	}
	for _, e := range lr.Contents {
		if e.Key == key {
			l.ws.mu.Lock()
			w := l.ws.byMD5[strings.Trim(e.ETag, `"`)]
			l.ws.mu.Unlock()
			if w == nil {
				return readObs{Status: 200, Wid: -1, Torn: fmt.Sprintf("listed etag %s size %d matches no write", e.ETag, e.Size)}, r
			}
			if int(e.Size) != len(w.body) {
				return readObs{Status: 200, Wid: -1, Torn: fmt.Sprintf("listed size %d but etag belongs to write %d with %d bytes", e.Size, w.id, len(w.body))}, r
			}
			return readObs{Status: 200, Wid: w.id}, r
		}
	}
	return readObs{Status: 404, Wid: 0}, r
}

type histOp struct {
	Who  string `json:"who"`
	In   opIn   `json:"in"`
	Out  opOut  `json:"out"`
	Call int64  `json:"call"`
	Ret  int64  `json:"ret"`
	Note string `json:"note,omitempty"`
}

func checkHistory(ops []histOp, timeout time.Duration) porcupine.CheckResult {
	var po []porcupine.Operation
	for i, o := range ops {
		po = append(po, porcupine.Operation{ClientId: i, Input: o.In, Output: o.Out, Call: o.Call, Return: o.Ret})
	}
	return porcupine.CheckOperationsTimeout(regModel, po, timeout)
}

// trace runs P alone and returns the names of its hook hits.
func (l *laneA) trace(p pKind) ([]string, error) {
	l.seq++
	key := fmt.Sprintf("t%d", l.seq)
	pr, err := l.prepare(p, key)
	if err != nil {
		return nil, err
	}
	pol, seen := gate.TraceFirst()
	l.ctl.SetPolicy(pol)
	r := pr.run(l.cl[0])
	l.ctl.SetPolicy(nil)
	if r.Err != nil || r.Status >= 300 {
		return nil, fmt.Errorf("trace run of %s: %s", p.name, r)
	}
	return seen(), nil
}

func (l *laneA) oneCase(id string, p pKind, j int, wantName string, o string, place int) {
	c := l.c
	l.seq++
	key := fmt.Sprintf("k%d", l.seq)
	pr, err := l.prepare(p, key)
	if err != nil {
		c.Inconclusive("prepare: " + err.Error())
		return
	}
	b := pr.bucket
	clk := l.clk
	var hist []histOp
	// the seed state as a completed put at time 0..1
	if pr.seedW != 0 {
		hist = append(hist, histOp{Who: "seed", In: opIn{Kind: "put", W: pr.seedW, Name: "seed"}, Out: opOut{Ack: true}, Call: 0, Ret: 1})
	}
	if o == "GETV" && pr.stableVid == "" {
		return
	}
	if o == "PUTL" && (pr.seedW == 0 || len(l.ws.byIDLocked(pr.seedW).body) < 16) {
		return
	}
	pol, seen := gate.HoldNth(j)
	l.ctl.SetPolicy(pol)
	type pres struct {
		r    *s3c.Resp
		call int64
		ret  int64
	}
	ch := make(chan pres, 1)
	go func() {
		t0 := clk.now()
		r := pr.run(l.cl[0])
		ch <- pres{r, t0, clk.now()}
	}()
	h := l.ctl.WaitHeld(8 * time.Second)
	if h == nil {
		l.ctl.SetPolicy(nil)
		l.ctl.DrainRelease()
		select {
		case <-ch:
		case <-time.After(30 * time.Second):
		}
		c.Inconclusive("P never reached hit " + strconv.Itoa(j) + " of " + p.name)
		return
	}
	if h.Name != wantName {
		h.Release()
		l.ctl.SetPolicy(nil)
		<-ch
		c.Inconclusive(fmt.Sprintf("%s hit %d is %s, trace said %s", p.name, j, h.Name, wantName))
		return
	}
	// observer runs to completion while P is held
	ocl := l.cl[place]
	var oOp histOp
	oOp.Who = "O"
	oOp.Call = clk.now()
	var oObs readObs
	var oResp *s3c.Resp
	var oW *write
	switch o {
	case "GET":
		oResp = ocl.Do(&s3c.Req{Method: "GET", Path: s3c.ObjPath(b, key), Header: s3c.H{{ckMode[0], ckMode[1]}}, FreshConn: true})
		oObs = l.ws.judgeRead(oResp, false)
		oOp.In = opIn{Kind: "read", Name: "GET"}
	case "HEAD":
		oResp = ocl.Do(&s3c.Req{Method: "HEAD", Path: s3c.ObjPath(b, key), Header: s3c.H{{ckMode[0], ckMode[1]}}, FreshConn: true})
		oObs = l.ws.judgeRead(oResp, true)
		oOp.In = opIn{Kind: "read", Name: "HEAD"}
	case "LIST":
		oObs, oResp = l.listRead(ocl, b, key)
		oOp.In = opIn{Kind: "read", Name: "LIST"}
	case "GETV":
		// read of an older version by id while P runs: it must stay readable and intact throughout
		oResp = ocl.Do(&s3c.Req{Method: "GET", Path: s3c.ObjPath(b, key), Query: s3c.Q("versionId", pr.stableVid), Header: s3c.H{{ckMode[0], ckMode[1]}}, FreshConn: true})
		oObs = l.ws.judgeRead(oResp, false)
		oOp.In = opIn{Kind: "read", Name: "GETV"}
	case "PUT", "PUTL":
		oW = l.ws.mk(false)
		if o == "PUTL" {
			oW = l.ws.mkLen(len(l.ws.byIDLocked(pr.seedW).body))
		}
		h2 := s3c.H{}
		for i := 0; i+1 < len(oW.hdr()); i += 2 {
			h2 = append(h2, [2]string{oW.hdr()[i], oW.hdr()[i+1]})
		}
		oResp = ocl.Do(&s3c.Req{Method: "PUT", Path: s3c.ObjPath(b, key), Body: oW.body, Header: h2, FreshConn: true})
		oOp.In = opIn{Kind: "put", W: oW.id, Name: "PUT"}
		oOp.Out = opOut{Ack: oResp.OK()}
	case "DELETE":
		oResp = ocl.Do(&s3c.Req{Method: "DELETE", Path: s3c.ObjPath(b, key), FreshConn: true})
		oOp.In = opIn{Kind: "del", Name: "DELETE"}
		oOp.Out = opOut{Ack: ackDelete(oResp)}
	}
	oOp.Ret = clk.now()
	h.Release()
	var pr1 pres
	select {
	case pr1 = <-ch:
	case <-time.After(60 * time.Second):
		l.ctl.SetPolicy(nil)
		c.Inconclusive("P did not return after release")
		return
	}
	l.ctl.SetPolicy(nil)
	hits := seen()
	c.Eval(1)
	l.mu.Lock()
	l.names[wantName] = true
	l.mu.Unlock()
	placeName := []string{"same-process", "other-process"}[place]
	base := fmt.Sprintf("%s@%s|%s", p.name, wantName, o)
	detail := map[string]any{"config": l.cfg.name, "P": p.name, "held_at": wantName, "hit_index": j, "O": o, "placement": placeName,
		"P_status": pr1.r.String(), "O_status": oResp.String(), "P_hits": hits}
	viol := func(anomaly string, extra string) {
		detail["anomaly"] = anomaly
		detail["explain"] = extra
		c.Violation(base+":"+anomaly, id, detail)
	}
	bodyCut := func(r *s3c.Resp) bool { return r.Err != nil && strings.HasPrefix(r.Err.Error(), "read body") }
	if (oResp.Err != nil && !bodyCut(oResp)) || (pr1.r.Err != nil && !bodyCut(pr1.r)) {
		if _, cr := l.env.Dead(); cr != nil {
			viol("gateway-died", cr.Message+" "+cr.TopFrame)
		} else if pr.isRead && pr1.r.Err != nil && oResp.Err == nil {
			// a read of a key that exists throughout, answered with a broken response (the gateway is alive)
			viol("read-connection-dropped", "P ("+p.name+") got no complete response: "+pr1.r.Err.Error())
		} else {
			et := ""
			for _, r := range []*s3c.Resp{pr1.r, oResp} {
				if r.Err != nil {
					et = r.Err.Error()
					if len(et) > 60 {
						et = et[:60]
					}
				}
			}
			c.Inconclusive("transport error in schedule: " + et)
		}
		return
	}
	// P's own result
	pOp := histOp{Who: "P", In: pr.in, Call: pr1.call, Ret: pr1.ret}
	tornSeen := false
	if pr.isRead {
		ro := l.ws.judgeRead(pr1.r, pr.head)
		if ro.Torn != "" {
			viol("torn-read-by-P", ro.Torn)
			tornSeen = true
		} else if ro.Refused {
			viol("read-refused", fmt.Sprintf("P %s answered %s", p.name, pr1.r))
			tornSeen = true
		}
		pOp.Out = opOut{Wid: ro.Wid}
	} else if pr.in.Kind == "del" || pr.in.Kind == "delver" {
		pOp.Out = opOut{Ack: ackDelete(pr1.r)}
	} else {
		pOp.Out = opOut{Ack: pr1.r.OK()}
	}
	if !pr.isRead && !pOp.Out.Ack {
		// P itself failed: allowed only if it then had no effect; keep it in the history as not acknowledged
		detail["note"] = "P was refused"
		c.Observe(fmt.Sprintf("%s refused when %s ran at %s: %s", p.name, o, wantName, pr1.r))
	}
	if o == "GETV" {
		c.Distinct(fmt.Sprintf("A|%s|%s|%s|%s|%s", l.cfg.name, p.name, wantName, o, placeName))
		switch {
		case oObs.Torn != "":
			viol("version-read-torn", oObs.Torn)
		case oObs.Refused || oObs.Wid == 0:
			viol("older-version-unreadable", fmt.Sprintf("GET ?versionId=%s answered %s while %s was in flight", pr.stableVid, oResp, p.name))
		case oObs.Wid != pr.stableWid:
			viol("version-read-wrong-write", fmt.Sprintf("GET ?versionId=%s returned write %d, that version is write %d", pr.stableVid, oObs.Wid, pr.stableWid))
		}
		// after P returned the version must still be there
		fr := l.cl[1-place].GetObjectV(b, key, pr.stableVid)
		if fo := l.ws.judgeRead(fr, false); fo.Wid != pr.stableWid {
			viol("older-version-unreadable-afterwards", fmt.Sprintf("%s %s", fr, fo.Torn))
		}
		return
	}
	if oOp.In.Kind == "read" {
		if oObs.Torn != "" {
			viol("torn-read", oObs.Torn)
			tornSeen = true
		} else if oObs.Refused {
			viol("read-refused", fmt.Sprintf("%s answered %s", o, oResp))
			tornSeen = true
		}
		oOp.Out = opOut{Wid: oObs.Wid}
	}
	// final read after both returned
	fr := l.cl[1-place].GetObject(b, key, ckMode...)
	fo := l.ws.judgeRead(fr, false)
	fOp := histOp{Who: "final", In: opIn{Kind: "read", Name: "GET"}, Out: opOut{Wid: fo.Wid}, Call: clk.now()}
	fOp.Ret = fOp.Call + 1
	if fo.Torn != "" {
		viol("torn-final-state", fo.Torn)
		tornSeen = true
	} else if fo.Refused {
		viol("final-read-refused", fr.String())
		tornSeen = true
	}
	hist = append(hist, pOp, oOp, fOp)
	detail["history"] = hist
	c.Distinct(fmt.Sprintf("A|%s|%s|%s|%s|%s", l.cfg.name, p.name, wantName, o, placeName))
	if l.seq%97 == 0 {
		c.Sample(map[string]any{"lane": "A", "case": id, "config": l.cfg.name, "history": hist})
	}
	if tornSeen {
		return
	}
	res := checkHistory(hist, 30*time.Second)
	switch res {
	case porcupine.Ok:
	case porcupine.Unknown:
		c.Inconclusive("porcupine timeout")
	default:
		// classify
		an := "nonlinearizable"
		if oOp.In.Kind == "read" && oOp.Out.Wid == 0 && pr.seedW != 0 && pr.in.Kind == "put" {
			an = "existing-key-reads-missing"
		} else if pr.isRead && pOp.Out.Wid == 0 && oOp.In.Kind == "put" {
			an = "existing-key-reads-missing"
		} else if fOp.Out.Wid == 0 && (pr.in.Kind == "put" && pOp.Out.Ack) && oOp.In.Kind != "del" {
			an = "acknowledged-write-lost"
		} else if fOp.Out.Wid == 0 && oOp.In.Kind == "put" && oOp.Out.Ack && pr.in.Kind != "del" {
			an = "acknowledged-write-lost"
		} else if fOp.Out.Wid != 0 && oOp.In.Kind == "read" && oOp.Out.Wid != 0 {
			an = "stale-or-future-read"
		}
		viol(an, "no order respecting real time explains the history")
	}
}

func runLaneA(c *ev.Ctx, cfg laneCfg) {
	ctl, err := gate.New(gw.Scratch())
	if err != nil {
		c.Inconclusive("gate: " + err.Error())
		return
	}
	defer ctl.Close()
	env, err := fx.New("c05a-"+cfg.name, gw.Config{NoOTmp: cfg.noOTmp, Versioning: true, Env: ctl.Env("*")}, 2)
	if err != nil {
		c.Inconclusive("gateway start: " + err.Error())
		return
	}
	defer env.Close()
	l := &laneA{c: c, cfg: cfg, env: env, ctl: ctl, ws: newWrites(), clk: clock{time.Now()}, names: map[string]bool{}}
	l.cl[0], l.cl[1] = env.Client(0), env.Client(1)
	for _, b := range []string{"plain", "verb"} {
		if r := l.cl[0].CreateBucket(b); !r.OK() {
			c.Inconclusive("create bucket: " + r.String())
			return
		}
	}
	if r := l.cl[0].PutBucketVersioning("verb", "Enabled"); !r.OK() {
		c.Inconclusive("enable versioning: " + r.String())
		return
	}
	// first object in each bucket goes through the named-temp fallback (no .sgwtmp dir yet): warm up
	for _, b := range []string{"plain", "verb"} {
		l.cl[0].PutObject(b, "warmup", []byte("x"))
	}
	kinds := pKinds
	for _, p := range kinds {
		l.trace(p) // warm-up: the first run in a bucket may take the named-temp fallback path
		hits, err := l.trace(p)
		if err != nil {
			c.Inconclusive("trace: " + err.Error())
			continue
		}
		c.Add("trace_runs", 1)
		if len(hits) == 0 {
			c.Inconclusive("no hook hits for " + p.name)
			continue
		}
		for j, name := range hits {
			for _, o := range oKinds {
				if (strings.HasPrefix(p.name, "GET") || strings.HasPrefix(p.name, "HEAD")) && (o == "GET" || o == "HEAD" || o == "LIST") {
					continue // two reads cannot disagree
				}
				if o == "PUTL" && p.name != "GET" && p.name != "HEAD" {
					continue
				}
				for place := 0; place < 2; place++ {
					if !c.Thorough() && place == 1 && (o == "HEAD" || o == "LIST") {
						continue
					}
					id := fmt.Sprintf("A/%s/%s/%d/%s/%d", cfg.name, p.name, j+1, o, place)
					if !c.Want(id) {
						continue
					}
					l.oneCase(id, p, j+1, name, o, place)
					if i, cr := env.Dead(); cr != nil {
						c.Violation("A:gateway-died:"+cr.TopFrame, id, map[string]any{"gateway": i, "crash": cr.Message})
						return
					}
				}
			}
		}
	}
	l.mu.Lock()
	var pts []string
	for n := range l.names {
		pts = append(pts, n)
	}
	l.mu.Unlock()
	c.Add("hook_points_reached_"+cfg.name, len(pts))
}

// ---- lane B: stress ----------------------------------------------------------

type stressCfg struct {
	noOTmp  bool
	race    bool
	gws     int
	keys    int
	clients int
	opsPer  int
	deletes bool
}

func runStress(c *ev.Ctx, id string, sc stressCfg, seed int64) {
	env, err := fx.New("c05b", gw.Config{NoOTmp: sc.noOTmp, Race: sc.race,
		Env: []string{fmt.Sprintf("VERIF_HOOK_RAND=%d:300:3", seed)}}, sc.gws)
	if err != nil {
		c.Inconclusive("gateway start: " + err.Error())
		return
	}
	defer env.Close()
	cls := make([]*s3c.Client, sc.gws)
	for i := range cls {
		cls[i] = env.Client(i)
	}
	if r := cls[0].CreateBucket("stress"); !r.OK() {
		c.Inconclusive("create bucket: " + r.String())
		return
	}
	ws := newWrites()
	clk := clock{time.Now()}
	keys := make([]string, sc.keys)
	hist := make([][]histOp, sc.keys)
	var hmu sync.Mutex
	for i := range keys {
		keys[i] = fmt.Sprintf("key%d", i)
		w := ws.mk(false)
		t0 := clk.now()
		r := cls[0].PutObject("stress", keys[i], w.body, w.hdr()...)
		if !r.OK() {
			c.Inconclusive("seed: " + r.String())
			return
		}
		hist[i] = append(hist[i], histOp{Who: "seed", In: opIn{Kind: "put", W: w.id, Name: "seed"}, Out: opOut{Ack: true}, Call: t0, Ret: clk.now()})
	}
	var wg sync.WaitGroup
	unknown := false
	for ci := 0; ci < sc.clients; ci++ {
		wg.Add(1)
		go func(ci int) {
			defer wg.Done()
			r := rand.New(rand.NewSource(seed*131 + int64(ci)))
			for n := 0; n < sc.opsPer; n++ {
				ki := r.Intn(sc.keys)
				key := keys[ki]
				cl := cls[r.Intn(sc.gws)]
				var op histOp
				op.Who = fmt.Sprintf("c%d", ci)
				x := r.Intn(100)
				var resp *s3c.Resp
				switch {
				case x < 5:
					// a write the gateway refuses after it received the body (a legal hold the bucket cannot give):
					// it is a put that is never acknowledged, so no read may ever return it
					w := ws.mk(r.Intn(3) == 0)
					op.In = opIn{Kind: "put", W: w.id, Name: "PUT-to-be-refused"}
					op.Call = clk.now()
					if r.Intn(2) == 0 {
						resp = cl.PutObject("stress", key, w.body, append(w.hdr(), "X-Amz-Object-Lock-Legal-Hold", "ON")...)
					} else {
						// ... or one that carries more data than it declared (the failure is met while the body is stored)
						op.In.Name = "PUT-to-be-refused(longer-than-declared)"
						dl := int64(len(w.body) / 2)
						h := s3c.H{}
						for i, kv := 0, w.hdr(); i+1 < len(kv); i += 2 {
							if !strings.HasPrefix(kv[i], "X-Amz-Checksum") {
								h = append(h, [2]string{kv[i], kv[i+1]})
							}
						}
						resp = cl.Do(&s3c.Req{Method: "PUT", Path: s3c.ObjPath("stress", key), Body: w.body, Header: h,
							Stream: &s3c.Stream{Mode: s3c.StreamSigned, ChunkSizes: []int{64 << 10}, DecodedLen: &dl}})
					}
					op.Ret = clk.now()
					op.Out = opOut{Ack: resp.OK(), Unk: resp.Err != nil}
				case x < 35:
					w := ws.mk(r.Intn(3) == 0)
					if r.Intn(4) == 0 {
						// the body of an earlier write under a new identity (a re-upload of unchanged data with other attributes)
						ws.mu.Lock()
						of := ws.byID[1+r.Intn(ws.next)]
						ws.mu.Unlock()
						if of != nil && of.rep == of.id {
							w = ws.mkTwin(of)
						}
					}
					op.In = opIn{Kind: "put", W: w.id, Name: "PUT"}
					op.Call = clk.now()
					resp = cl.PutObject("stress", key, w.body, w.hdr()...)
					op.Ret = clk.now()
					op.Out = opOut{Ack: resp.OK(), Unk: resp.Err != nil}
				case x < 45 && sc.deletes:
					op.In = opIn{Kind: "del", Name: "DELETE"}
					op.Call = clk.now()
					resp = cl.DeleteObject("stress", key)
					op.Ret = clk.now()
					op.Out = opOut{Ack: ackDelete(resp), Unk: resp.Err != nil}
				case x < 80:
					op.In = opIn{Kind: "read", Name: "GET"}
					op.Call = clk.now()
					resp = cl.GetObject("stress", key, ckMode...)
					op.Ret = clk.now()
					ro := ws.judgeRead(resp, false)
					op.Out = opOut{Wid: ro.Wid, Unk: ro.Refused}
					op.Note = ro.Torn
				default:
					op.In = opIn{Kind: "read", Name: "HEAD"}
					op.Call = clk.now()
					resp = cl.HeadObject("stress", key, ckMode...)
					op.Ret = clk.now()
					ro := ws.judgeRead(resp, true)
					op.Out = opOut{Wid: ro.Wid, Unk: ro.Refused}
					op.Note = ro.Torn
				}
				hmu.Lock()
				if op.Out.Unk {
					unknown = true
					op.Note += " status=" + resp.String()
				}
				hist[ki] = append(hist[ki], op)
				hmu.Unlock()
			}
		}(ci)
	}
	wg.Wait()
	total := 0
	for _, h := range hist {
		total += len(h)
	}
	c.Eval(total)
	c.Add("stress_histories", 1)
	c.Add("stress_operations", total)
	lane := "B"
	if sc.race {
		lane = "B-race"
	}
	cfgName := fmt.Sprintf("%s|otmp=%v|gws=%d|keys=%d|clients=%d|del=%v", lane, !sc.noOTmp, sc.gws, sc.keys, sc.clients, sc.deletes)
	if i, cr := env.Dead(); cr != nil {
		c.Violation("B:gateway-died:"+cr.TopFrame, id, map[string]any{"gateway": i, "crash": cr.Message})
		return
	}
	if sc.race {
		for _, g := range env.GWs {
			g.Stop()
			for _, rep := range g.RaceReports() {
				sig, inV := gw.RaceSig(rep)
				if inV {
					c.Violation("race:"+sig, id, map[string]any{"report": trunc(rep, 3000)})
				} else {
					c.Observe("race report entirely inside dependencies: " + sig)
				}
			}
		}
	}
	if unknown {
		// reads without an answer constrain nothing: report them and drop them; a write whose outcome is
		// unknown makes the history inconclusive
		writeUnknown := false
		for ki, h := range hist {
			var keep []histOp
			for _, o := range h {
				if o.Out.Unk && o.In.Kind == "read" {
					sig := "B:read-refused"
					if strings.Contains(o.Note, "status=ERR") {
						sig = "B:read-connection-dropped"
					}
					c.Violation(sig, id, map[string]any{"key": keys[ki], "op": o, "config": cfgName})
					continue
				}
				if o.Out.Unk {
					writeUnknown = true
				}
				keep = append(keep, o)
			}
			hist[ki] = keep
		}
		if writeUnknown {
			c.Inconclusive("stress history with a write of unknown outcome")
			return
		}
	}
	overlaps := 0
	for ki, h := range hist {
		// atomicity monitor first: torn reads are reported and removed
		var clean []histOp
		for _, o := range h {
			if o.In.Kind == "read" && o.Out.Wid == -1 {
				c.Violation("B:torn-read", id, map[string]any{"key": keys[ki], "op": o, "config": cfgName, "explain": o.Note})
				continue
			}
			clean = append(clean, o)
		}
		for i := range clean {
			for j := i + 1; j < len(clean); j++ {
				if clean[i].Call <= clean[j].Ret && clean[j].Call <= clean[i].Ret {
					overlaps++
				}
			}
		}
		if !sc.deletes {
			// overwrite-only history: the key exists throughout; an absent read is the named anomaly
			var c2 []histOp
			for _, o := range clean {
				if o.In.Kind == "read" && o.Out.Wid == 0 {
					c.Violation("B:existing-key-reads-missing", id, map[string]any{"key": keys[ki], "op": o, "config": cfgName,
						"explain": "overwrite-only history (no DELETE was ever issued) but a read returned 404"})
					continue
				}
				c2 = append(c2, o)
			}
			clean = c2
		}
		res := checkHistory(clean, 60*time.Second)
		switch res {
		case porcupine.Ok:
		case porcupine.Unknown:
			c.Inconclusive("porcupine timeout (stress)")
		default:
			an := "B:nonlinearizable"
			if sc.deletes {
				// is it explained by spurious absent reads during overwrites (the remove-then-link window)?
				var c3 []histOp
				dropped := 0
				for _, o := range clean {
					if o.In.Kind == "read" && o.Out.Wid == 0 {
						dropped++
						continue
					}
					c3 = append(c3, o)
				}
				if dropped > 0 && checkHistory(c3, 60*time.Second) == porcupine.Ok {
					an = "B:absent-read-not-explained-by-a-delete"
				}
			}
			c.Violation(an, id, map[string]any{"key": keys[ki], "config": cfgName, "ops": len(clean), "history_tail": tailOps(clean, 40)})
		}
	}
	if overlaps >= 2 {
		c.Distinct(fmt.Sprintf("%s|seed=%d", cfgName, seed))
	}
	c.Add("stress_overlapping_pairs", overlaps)
}

// ---- lane L: overlapping large uploads in a process that has seen uploads fail -----------------------------
//
// "every successful GET returns the complete body of exactly one write together with that same write's ETag": the
// body transfers of several multi-MiB uploads overlap for milliseconds, in a gateway process that first had uploads
// fail in every way a client can provoke while the body is being stored (more data than declared, a dropped
// connection, a wrong digest). Every acknowledged upload must carry the ETag of its own data, every read must be
// the whole of one write, and after each round the key holds one of the writes acknowledged in that round.
func runLarge(c *ev.Ctx, id string, noOTmp bool, seed int64) {
	env, err := fx.New("c05l", gw.Config{NoOTmp: noOTmp}, 1)
	if err != nil {
		c.Inconclusive("gateway start: " + err.Error())
		return
	}
	defer env.Close()
	cl := env.Client(0)
	if r := cl.CreateBucket("large"); !r.OK() {
		c.Inconclusive("create bucket: " + r.String())
		return
	}
	r := rand.New(rand.NewSource(seed))
	ws := newWrites()
	mkLarge := func() *write {
		w := ws.mk(true)
		ws.mu.Lock()
		delete(ws.byMD5, w.md5)
		delete(ws.byCRC, w.crc)
		n := 2<<20 + r.Intn(3<<20)
		b := make([]byte, n)
		rand.New(rand.NewSource(int64(w.id)*7919 + seed)).Read(b)
		copy(b, []byte(fmt.Sprintf("w%d|", w.id)))
		sum := md5.Sum(b)
		w.body, w.md5, w.crc = b, hex.EncodeToString(sum[:]), s3c.Checksum("crc32", b)
		ws.byMD5[w.md5] = w
		ws.byCRC[w.crc] = w
		ws.mu.Unlock()
		return w
	}
	plain := func(w *write) s3c.H {
		var h s3c.H
		for i, kv := 0, w.hdr(); i+1 < len(kv); i += 2 {
			if !strings.HasPrefix(kv[i], "X-Amz-Checksum") {
				h = append(h, [2]string{kv[i], kv[i+1]})
			}
		}
		return h
	}
	cfgName := fmt.Sprintf("L|otmp=%v", !noOTmp)
	fails := map[string]func(key string) *s3c.Resp{
		"longer-than-declared(aws-chunked)": func(key string) *s3c.Resp {
			w := ws.mk(true)
			dl := int64(len(w.body) / 2)
			return cl.Do(&s3c.Req{Method: "PUT", Path: s3c.ObjPath("large", key), Body: w.body, Header: plain(w),
				Stream: &s3c.Stream{Mode: s3c.StreamSigned, ChunkSizes: []int{64 << 10}, DecodedLen: &dl}})
		},
		"longer-than-declared(unsigned-trailer)": func(key string) *s3c.Resp {
			w := ws.mk(true)
			dl := int64(100)
			return cl.Do(&s3c.Req{Method: "PUT", Path: s3c.ObjPath("large", key), Body: w.body, Header: plain(w),
				Stream: &s3c.Stream{Mode: s3c.StreamUnsignTr, ChunkSizes: []int{64 << 10}, TrailerName: "x-amz-checksum-crc32", DecodedLen: &dl}})
		},
		"no-content-length": func(key string) *s3c.Resp {
			w := ws.mk(true)
			return cl.Do(&s3c.Req{Method: "PUT", Path: s3c.ObjPath("large", key), Body: w.body, Header: plain(w), NoContentLength: true, FreshConn: true, Watchdog: 10 * time.Second})
		},
		"wrong-content-md5": func(key string) *s3c.Resp {
			w := ws.mk(true)
			return cl.PutObject("large", key, w.body, "Content-MD5", s3c.MD5B64([]byte("other")), "X-Amz-Meta-Wid", strconv.Itoa(w.id), "Content-Type", w.ctype)
		},
		"connection-closed-mid-body": func(key string) *s3c.Resp {
			w := ws.mk(true)
			return cl.Do(&s3c.Req{Method: "PUT", Path: s3c.ObjPath("large", key), Body: w.body, Header: plain(w), CloseAfter: len(w.body) / 2, FreshConn: true, Watchdog: 10 * time.Second})
		},
	}
	names := make([]string, 0, len(fails))
	for n := range fails {
		names = append(names, n)
	}
	sort.Strings(names)
	// unchanged data under a new identity: the same body is uploaded again with other attributes (what a sync tool
	// does after a metadata change); the read afterwards must be the second write alone - its metadata, content type,
	// optional entries - and not carry anything that only the first write had
	for k := 0; k < 8; k++ {
		a := ws.mk(k%2 == 1)
		key := fmt.Sprintf("twin-%d", k)
		seq := []*write{a, ws.mkTwin(a), ws.mkTwin(a)}
		for i, w := range seq {
			pr := cl.PutObject("large", key, w.body, w.hdr()...)
			c.Eval(1)
			if !pr.OK() {
				c.Violation("L:correct-upload-refused", id, map[string]any{"config": cfgName, "answer": pr.String(), "write": w.id})
				break
			}
			for _, head := range []bool{false, true} {
				var g *s3c.Resp
				if head {
					g = cl.HeadObject("large", key, ckMode...)
				} else {
					g = cl.GetObject("large", key, ckMode...)
				}
				ro := ws.judgeRead(g, head)
				if ro.Wid != w.id {
					c.Violation("L:read-after-reupload-of-unchanged-data-is-not-the-last-write", id, map[string]any{"config": cfgName, "key": key,
						"writes_in_order": []int{seq[0].id, seq[1].id, seq[2].id}[:i+1], "read_says_write": ro.Wid, "explain": ro.Torn, "answer": g.String()})
				} else if i > 0 {
					c.Distinct(fmt.Sprintf("%s|twin-sequence|%d", cfgName, i))
				}
			}
		}
	}
	keys := []string{"big-0", "big-1"}
	rounds := c.Pick(5, 14)
	for round := 0; round < rounds; round++ {
		// one or two uploads that fail (round 0: none - the same overlapping uploads in a process that saw no failure)
		var failed []string
		if round > 0 {
			for i := 0; i < 1+r.Intn(2); i++ {
				n := names[r.Intn(len(names))]
				resp := fails[n]("failed-upload")
				c.Eval(1)
				if resp.OK() {
					// (an upload that sends more than it declared may be cut at the declared length by the server; it is
					// then simply a shorter acknowledged write to another key and of no concern here)
					c.Observe("lane L: upload meant to fail was acknowledged: " + n)
				}
				failed = append(failed, n)
			}
		}
		uploads := 3 + r.Intn(3)
		type res struct {
			w    *write
			key  string
			resp *s3c.Resp
		}
		out := make([]res, uploads)
		var wg sync.WaitGroup
		for i := range out {
			out[i] = res{w: mkLarge(), key: keys[r.Intn(len(keys))]}
			wg.Add(1)
			go func(i int) {
				defer wg.Done()
				o := &out[i]
				o.resp = cl.Do(&s3c.Req{Method: "PUT", Path: s3c.ObjPath("large", o.key), Body: o.w.body, Header: plain(o.w), PayloadHash: s3c.Unsigned, FreshConn: true})
			}(i)
		}
		wg.Wait()
		c.Eval(uploads)
		acked := map[string]map[int]bool{}
		det := map[string]any{"config": cfgName, "round": round, "failed_uploads_before": failed, "overlapping_uploads": uploads}
		for _, o := range out {
			if o.resp.Err != nil {
				c.Inconclusive("lane L: transport error on a large upload")
				return
			}
			if !o.resp.OK() {
				det["answer"] = o.resp.String()
				c.Violation("L:correct-upload-refused", id, det)
				continue
			}
			if acked[o.key] == nil {
				acked[o.key] = map[int]bool{}
			}
			acked[o.key][o.w.id] = true
			if et := strings.Trim(o.resp.Header.Get("Etag"), `"`); et != o.w.md5 {
				det["write"] = o.w.id
				det["etag_acknowledged"] = et
				det["etag_of_the_data_sent"] = o.w.md5
				c.Violation("L:upload-acknowledged-with-the-etag-of-other-data", id, det)
			}
		}
		for _, k := range keys {
			if acked[k] == nil {
				continue
			}
			g := cl.GetObject("large", k)
			ro := ws.judgeRead(g, false)
			c.Eval(1)
			switch {
			case ro.Refused || ro.Wid == 0:
				det["get"] = g.String()
				c.Violation("L:acknowledged-upload-not-readable", id, det)
			case ro.Wid == -1:
				det["explain"] = ro.Torn
				c.Violation("L:torn-read", id, det)
			case !acked[k][ro.Wid]:
				det["read_write"] = ro.Wid
				c.Violation("L:key-holds-none-of-the-writes-acknowledged-last", id, det)
			default:
				c.Distinct(fmt.Sprintf("%s|after=%s|uploads=%d", cfgName, strings.Join(failed, "+"), uploads))
			}
		}
	}
	if i, cr := env.Dead(); cr != nil {
		c.Violation("L:gateway-died:"+cr.TopFrame, id, map[string]any{"gateway": i, "crash": cr.Message})
	}
}

func tailOps(h []histOp, n int) []histOp {
	if len(h) > n {
		return h[len(h)-n:]
	}
	return h
}

func trunc(s string, n int) string {
	if len(s) > n {
		return s[:n]
	}
	return s
}

func Run(c *ev.Ctx) int {
	c.Assume("schedules: one request held at one hook point while one other request runs to completion; three-way interleavings and preemption between hook points only by stress")
	c.Assume("tmpfs scratch storage; two gateway processes on one root stand for the cluster deployment")
	var wg sync.WaitGroup
	for _, cfg := range []laneCfg{{"otmpfile", false}, {"named-temp", true}} {
		wg.Add(1)
		go func(cfg laneCfg) {
			defer wg.Done()
			runLaneA(c, cfg)
		}(cfg)
	}
	wg.Wait()
	// lane B
	nHist := c.Pick(8, 400)
	r := c.Rng("stress")
	sem := make(chan struct{}, 6)
	for i := 0; i < nHist; i++ {
		sc := stressCfg{noOTmp: i%2 == 1, gws: 1 + r.Intn(2), keys: 1 + r.Intn(3), clients: 8 + r.Intn(9), opsPer: 12 + r.Intn(14), deletes: i%3 == 2}
		seed := r.Int63n(1 << 30)
		id := fmt.Sprintf("B/%d", i)
		if !c.Want(id) {
			continue
		}
		wg.Add(1)
		sem <- struct{}{}
		go func() {
			defer wg.Done()
			defer func() { <-sem }()
			runStress(c, id, sc, seed)
		}()
	}
	wg.Wait()
	for i, noOTmp := range []bool{false, true} {
		id := fmt.Sprintf("L/%d", i)
		if !c.Want(id) {
			continue
		}
		wg.Add(1)
		go func(noOTmp bool) {
			defer wg.Done()
			runLarge(c, id, noOTmp, r.Int63n(1<<30))
		}(noOTmp)
	}
	wg.Wait()
	if c.Thorough() {
		for i := 0; i < 6; i++ {
			sc := stressCfg{noOTmp: i%2 == 1, race: true, gws: 1, keys: 2, clients: 12, opsPer: 20, deletes: i%3 == 2}
			id := fmt.Sprintf("B-race/%d", i)
			if !c.Want(id) {
				continue
			}
			runStress(c, id, sc, r.Int63n(1<<30))
		}
	}
	return c.Finish("lane A: for each paused operation P (10 kinds) x each hook hit of P's trace x observer O (GET/HEAD/PUT/DELETE/LIST) x placement (same/other process) x temp-file strategy: hold P at the hit, run O to completion, release, final GET; atomicity monitor on every read + porcupine register model on the history; distinct = (strategy,P,point,O,placement) actually reached. lane B: stress histories (8-16 clients, 1-3 keys, 1-2 gateways, PRNG delays at hook points), distinct = histories with >=2 overlapping operations", 60)
}
