package c08

import (
	"bytes"
	"encoding/xml"
	"fmt"
	"strings"
	"time"

	"verif/harness/internal/ev"
	"verif/harness/internal/fx"
	"verif/harness/internal/gate"
	"verif/harness/internal/gw"
	"verif/harness/internal/s3c"
)

// Gated lane: "the most recent SUCCESSFUL upload of each listed part". A re-upload of part 1 is paused at each of
// the instrumentation points it passes; while it is paused (it has not been answered yet) another client lists the
// parts and completes the upload with exactly what was listed. Whatever the order the gateway gives the two
// requests, the ETag listed for the part must be the ETag of the bytes the completed object is made of, and those
// bytes must be one of the two uploads of that part, whole.

type listPartsResult struct {
	Part []struct {
		PartNumber int
		ETag       string
		Size       int64
	}
}

func gatedLane(c *ev.Ctx, cf cfgT) {
	base := "G/" + cf.name
	tag := "[" + cf.name + "]"
	if !c.Want(base) {
		return
	}
	ctl, err := gate.New(gw.Scratch())
	if err != nil {
		c.Inconclusive(err.Error())
		return
	}
	defer ctl.Close()
	env, err := fx.New("c08g", gw.Config{NoOTmp: cf.noOTmp, Sidecar: cf.sidecar, Env: ctl.Env()}, 1)
	if err != nil {
		c.Inconclusive("gateway start (gated lane): " + err.Error())
		return
	}
	defer env.Close()
	cl := env.Client(0)
	const bucket = "gated"
	if r := cl.CreateBucket(bucket); !r.OK() {
		c.Inconclusive("create bucket: " + r.String())
		return
	}
	oldB := bytes.Repeat([]byte("old-part-one-"), 700)
	newB := bytes.Repeat([]byte("NEW-PART-ONE!"), 900)
	// single-part uploads: every part but the last would have to be 5 MiB
	// run the re-upload once unpaused (twice: the first use of a bucket takes other paths) to learn its points
	var trace []string
	for rep := 0; rep < 2; rep++ {
		key := fmt.Sprintf("trace-%d", rep)
		id, _ := cl.CreateMPU(bucket, key)
		cl.UploadPart(bucket, key, id, 1, oldB)
		pol, seen := gate.TraceFirst()
		ctl.SetPolicy(pol)
		cl.UploadPart(bucket, key, id, 1, newB)
		ctl.SetPolicy(nil)
		trace = seen()
		cl.AbortMPU(bucket, key, id)
	}
	if len(trace) == 0 {
		c.Inconclusive("UploadPart passed no instrumentation point")
		return
	}
	c.Set("gated_upload_part_points_"+cf.name, trace)
	for j := 1; j <= len(trace); j++ {
		id := fmt.Sprintf("%s/%d", base, j)
		if !c.Want(id) {
			continue
		}
		key := fmt.Sprintf("k-%d", j)
		up, r := cl.CreateMPU(bucket, key, "X-Amz-Meta-M", "gated")
		if !r.OK() {
			c.Inconclusive("create upload: " + r.String())
			return
		}
		if r := cl.UploadPart(bucket, key, up, 1, oldB); !r.OK() {
			c.Inconclusive("upload part: " + r.String())
			return
		}
		pol, _ := gate.HoldNth(j)
		ctl.SetPolicy(pol)
		pch := make(chan *s3c.Resp, 1)
		go func() { pch <- cl.UploadPart(bucket, key, up, 1, newB) }()
		h := ctl.WaitHeld(10 * time.Second)
		ctl.SetPolicy(nil)
		if h == nil {
			<-pch
			c.Observe("gated lane: re-upload passed fewer points than its trace run")
			cl.AbortMPU(bucket, key, up)
			continue
		}
		point := h.Name
		det := map[string]any{"config": cf.name, "schedule": "UploadPart(re-upload of part 1) paused at " + point + " | ListParts + CompleteMultipartUpload with the listed ETags | release"}
		// the observer: list, complete with what was listed (FreshConn: the paused request keeps its connection)
		lr := cl.Do(&s3c.Req{Method: "GET", Path: s3c.ObjPath(bucket, key), Query: s3c.Q("uploadId", up), FreshConn: true, Watchdog: 20 * time.Second})
		var lp listPartsResult
		xml.Unmarshal(lr.Body, &lp)
		var parts []s3c.Part
		listed1 := ""
		for _, p := range lp.Part {
			parts = append(parts, s3c.Part{N: p.PartNumber, ETag: p.ETag})
			if p.PartNumber == 1 {
				listed1 = strings.Trim(p.ETag, `"`)
			}
		}
		det["list_parts"] = lr.String()
		det["listed_etag_part1"] = listed1
		c.Eval(1)
		if lr.Err != nil {
			// the listing waits for the paused request: legitimate (serialised); release and go on
			h.Release()
			<-pch
			c.Distinct("G|" + cf.name + "|" + point + "|list-waits")
			cl.AbortMPU(bucket, key, up)
			continue
		}
		if !lr.OK() || len(parts) != 1 {
			h.Release()
			<-pch
			c.Violation("gated:UploadPart@"+point+"|ListParts:acknowledged-part-not-listed"+tag, id, det)
			cl.AbortMPU(bucket, key, up)
			continue
		}
		oldE, newE := s3c.MD5Hex(oldB), s3c.MD5Hex(newB)
		if listed1 != oldE && listed1 != newE {
			det["etag_of_acknowledged_upload"] = oldE
			det["etag_of_paused_upload"] = newE
			c.Violation("gated:UploadPart@"+point+"|ListParts:listed-etag-of-neither-upload"+tag, id, det)
		}
		cr := cl.Do(&s3c.Req{Method: "POST", Path: s3c.ObjPath(bucket, key), Query: s3c.Q("uploadId", up), Body: s3c.CompleteXML(parts), FreshConn: true, Watchdog: 20 * time.Second})
		det["complete"] = cr.String()
		h.Release()
		pr := <-pch
		det["paused_request_answer"] = pr.String()
		if cr.Err != nil {
			c.Distinct("G|" + cf.name + "|" + point + "|complete-waits")
			cl.AbortMPU(bucket, key, up)
			continue
		}
		if !cr.OK() || bytes.Contains(cr.Body, []byte("<Error>")) {
			// refused (e.g. InvalidPart because the part changed between listing and completion): no object may exist
			if g := cl.GetObject(bucket, key); g.Status != 404 {
				det["get"] = g.String()
				c.Violation("gated:UploadPart@"+point+"|Complete:refused-but-object-created"+tag, id, det)
			}
			c.Distinct("G|" + cf.name + "|" + point + "|complete-refused")
			cl.AbortMPU(bucket, key, up)
			continue
		}
		g := cl.GetObject(bucket, key)
		det["get"] = g.String()
		if !g.OK() {
			c.Violation("gated:UploadPart@"+point+"|Complete:completed-object-unreadable"+tag, id, det)
			continue
		}
		var first []byte
		switch {
		case bytes.Equal(g.Body, oldB):
			first = oldB
			det["object_made_of"] = "acknowledged upload of part 1"
		case bytes.Equal(g.Body, newB):
			first = newB
			det["object_made_of"] = "paused (not yet answered) upload of part 1"
		default:
			det["object_len"] = len(g.Body)
			c.Violation("gated:UploadPart@"+point+"|Complete:object-is-no-concatenation-of-uploaded-parts"+tag, id, det)
			continue
		}
		if s3c.MD5Hex(first) != listed1 {
			det["etag_of_the_bytes_used"] = s3c.MD5Hex(first)
			c.Violation("gated:UploadPart@"+point+"|Complete:object-built-from-other-bytes-than-the-listed-etag"+tag, id, det)
			continue
		}
		want := s3c.MultipartETag([][]byte{first})
		if et := strings.Trim(g.Header.Get("Etag"), `"`); et != want {
			det["etag"] = et
			det["want_etag"] = want
			c.Violation("gated:UploadPart@"+point+"|Complete:multipart-etag-wrong"+tag, id, det)
			continue
		}
		c.Distinct("G|" + cf.name + "|" + point + "|" + det["object_made_of"].(string))
		c.Add("gated_schedules", 1)
	}
}

// listPartsPaging: ListParts page chains over part numbers of different widths (1, 2, 9, 10, 11, 100, 1000, 10000):
// following NextPartNumberMarker must yield every uploaded part exactly once, in ascending order, with its ETag and
// size, at most max-parts per page. (Directory listings order such names as text: 1, 10, 100, 1000, 10000, 11, 2, 9.)
func listPartsPaging(c *ev.Ctx, cf cfgT) {
	id := "L/" + cf.name
	if !c.Want(id) {
		return
	}
	env, err := fx.New("c08l", gw.Config{NoOTmp: cf.noOTmp, Sidecar: cf.sidecar}, 1)
	if err != nil {
		c.Inconclusive("gateway start (list-parts lane): " + err.Error())
		return
	}
	defer env.Close()
	cl := env.Client(0)
	const b = "paging"
	if r := cl.CreateBucket(b); !r.OK() {
		c.Inconclusive("create bucket: " + r.String())
		return
	}
	for si, nums := range [][]int{{1, 2, 3, 4, 5, 6, 7, 8, 9, 10, 11, 12}, {1, 2, 9, 10, 11, 100, 1000, 10000}, {3, 20, 100, 101, 2000}} {
		key := fmt.Sprintf("k-%d", si)
		up, r := cl.CreateMPU(b, key)
		if !r.OK() {
			c.Inconclusive("create upload: " + r.String())
			return
		}
		etag := map[int]string{}
		size := map[int]int{}
		for _, n := range nums {
			body := bytes.Repeat([]byte{byte('a' + n%26)}, 10+n%97)
			pr := cl.UploadPart(b, key, up, n, body)
			if !pr.OK() {
				c.Inconclusive(fmt.Sprintf("upload part %d: %s", n, pr))
				return
			}
			etag[n] = strings.Trim(pr.Header.Get("Etag"), `"`)
			size[n] = len(body)
		}
		for _, maxParts := range []int{1, 2, 3, 5, 7, 1000} {
			var got []int
			marker := ""
			pages := 0
			bad := ""
			for {
				kv := []string{"uploadId", up, "max-parts", fmt.Sprint(maxParts)}
				if marker != "" {
					kv = append(kv, "part-number-marker", marker)
				}
				lr := cl.Do(&s3c.Req{Method: "GET", Path: s3c.ObjPath(b, key), Query: s3c.Q(kv...)})
				c.Eval(1)
				if !lr.OK() {
					bad = "ListParts answers " + lr.String()
					break
				}
				var lp struct {
					IsTruncated          bool
					NextPartNumberMarker string
					Part                 []struct {
						PartNumber int
						ETag       string
						Size       int64
					}
				}
				xml.Unmarshal(lr.Body, &lp)
				if len(lp.Part) > maxParts {
					bad = fmt.Sprintf("page of %d parts with max-parts=%d", len(lp.Part), maxParts)
					break
				}
				for _, p := range lp.Part {
					got = append(got, p.PartNumber)
					if strings.Trim(p.ETag, `"`) != etag[p.PartNumber] || int(p.Size) != size[p.PartNumber] {
						bad = fmt.Sprintf("part %d listed with ETag %s size %d, uploaded with %s size %d", p.PartNumber, p.ETag, p.Size, etag[p.PartNumber], size[p.PartNumber])
					}
				}
				pages++
				if !lp.IsTruncated || pages > len(nums)+3 {
					break
				}
				marker = lp.NextPartNumberMarker
			}
			if bad == "" && fmt.Sprint(got) != fmt.Sprint(nums) {
				bad = fmt.Sprintf("the page chain yields parts %v", got)
			}
			if bad != "" {
				c.Violation("list-parts:page-chain:"+cf.store(), id, map[string]any{"uploaded_parts": nums, "max_parts": maxParts, "why": bad, "config": cf.name})
			} else {
				c.Distinct(fmt.Sprintf("L|%s|set%d|max-parts=%d", cf.name, si, maxParts))
			}
		}
		cl.AbortMPU(b, key, up)
	}
}
