package c08

import (
	"bytes"
	"encoding/xml"
	"fmt"
	"strings"
	"time"

	"verif/harness/internal/ev"
	"verif/harness/internal/fx"
	"verif/harness/internal/gate"
	"verif/harness/internal/gw"
	"verif/harness/internal/s3c"
)

// Gated lane: "the most recent SUCCESSFUL upload of each listed part". A re-upload of part 1 is paused at each of
// the instrumentation points it passes; while it is paused (it has not been answered yet) another client lists the
// parts and completes the upload with exactly what was listed. Whatever the order the gateway gives the two
// requests, the ETag listed for the part must be the ETag of the bytes the completed object is made of, and those
// bytes must be one of the two uploads of that part, whole.

type listPartsResult struct {
	Part []struct {
		PartNumber int
		ETag       string
		Size       int64
	}
}

func gatedLane(c *ev.Ctx, cf cfgT) {
	base := "G/" + cf.name
	tag := "[" + cf.name + "]"
	if !c.Want(base) {
		return
	}
	ctl, err := gate.New(gw.Scratch())
	if err != nil {
		c.Inconclusive(err.Error())
		return
	}
	defer ctl.Close()
	env, err := fx.New("c08g", gw.Config{NoOTmp: cf.noOTmp, Sidecar: cf.sidecar, Env: ctl.Env()}, 1)
	if err != nil {
		c.Inconclusive("gateway start (gated lane): " + err.Error())
		return
	}
	defer env.Close()
	cl := env.Client(0)
	const bucket = "gated"
	if r := cl.CreateBucket(bucket); !r.OK() {
		c.Inconclusive("create bucket: " + r.String())
		return
	}
	oldB := bytes.Repeat([]byte("old-part-one-"), 700)
	newB := bytes.Repeat([]byte("NEW-PART-ONE!"), 900)
	// single-part uploads: every part but the last would have to be 5 MiB
	// run the re-upload once unpaused (twice: the first use of a bucket takes other paths) to learn its points
	var trace []string
	for rep := 0; rep < 2; rep++ {
		key := fmt.Sprintf("trace-%d", rep)
		id, _ := cl.CreateMPU(bucket, key)
		cl.UploadPart(bucket, key, id, 1, oldB)
		pol, seen := gate.TraceFirst()
		ctl.SetPolicy(pol)
		cl.UploadPart(bucket, key, id, 1, newB)
		ctl.SetPolicy(nil)
		trace = seen()
		cl.AbortMPU(bucket, key, id)
	}
	if len(trace) == 0 {
		c.Inconclusive("UploadPart passed no instrumentation point")
		return
	}
	c.Set("gated_upload_part_points_"+cf.name, trace)
	for j := 1; j <= len(trace); j++ {
		id := fmt.Sprintf("%s/%d", base, j)
		if !c.Want(id) {
			continue
		}
		key := fmt.Sprintf("k-%d", j)
		up, r := cl.CreateMPU(bucket, key, "X-Amz-Meta-M", "gated")
		if !r.OK() {
			c.Inconclusive("create upload: " + r.String())
			return
		}
		if r := cl.UploadPart(bucket, key, up, 1, oldB); !r.OK() {
			c.Inconclusive("upload part: " + r.String())
			return
		}
		pol, _ := gate.HoldNth(j)
		ctl.SetPolicy(pol)
		pch := make(chan *s3c.Resp, 1)
		go func() { pch <- cl.UploadPart(bucket, key, up, 1, newB) }()
		h := ctl.WaitHeld(10 * time.Second)
		ctl.SetPolicy(nil)
		if h == nil {
			<-pch
			c.Observe("gated lane: re-upload passed fewer points than its trace run")
			cl.AbortMPU(bucket, key, up)
			continue
		}
		point := h.Name
		det := map[string]any{"config": cf.name, "schedule": "UploadPart(re-upload of part 1) paused at " + point + " | ListParts + CompleteMultipartUpload with the listed ETags | release"}
		// the observer: list, complete with what was listed (FreshConn: the paused request keeps its connection)
		lr := cl.Do(&s3c.Req{Method: "GET", Path: s3c.ObjPath(bucket, key), Query: s3c.Q("uploadId", up), FreshConn: true, Watchdog: 20 * time.Second})
		var lp listPartsResult
		xml.Unmarshal(lr.Body, &lp)
		var parts []s3c.Part
		listed1 := ""
		for _, p := range lp.Part {
			parts = append(parts, s3c.Part{N: p.PartNumber, ETag: p.ETag})
			if p.PartNumber == 1 {
				listed1 = strings.Trim(p.ETag, `"`)
			}
		}
		det["list_parts"] = lr.String()
		det["listed_etag_part1"] = listed1
		c.Eval(1)
		if lr.Err != nil {
			// the listing waits for the paused request: legitimate (serialised); release and go on
			h.Release()
			<-pch
			c.Distinct("G|" + cf.name + "|" + point + "|list-waits")
			cl.AbortMPU(bucket, key, up)
			continue
		}
		if !lr.OK() || len(parts) != 1 {
			h.Release()
			<-pch
			c.Violation("gated:UploadPart@"+point+"|ListParts:acknowledged-part-not-listed"+tag, id, det)
			cl.AbortMPU(bucket, key, up)
			continue
		}
		oldE, newE := s3c.MD5Hex(oldB), s3c.MD5Hex(newB)
		if listed1 != oldE && listed1 != newE {
			det["etag_of_acknowledged_upload"] = oldE
			det["etag_of_paused_upload"] = newE
			c.Violation("gated:UploadPart@"+point+"|ListParts:listed-etag-of-neither-upload"+tag, id, det)
		}
		cr := cl.Do(&s3c.Req{Method: "POST", Path: s3c.ObjPath(bucket, key), Query: s3c.Q("uploadId", up), Body: s3c.CompleteXML(parts), FreshConn: true, Watchdog: 20 * time.Second})
		det["complete"] = cr.String()
		h.Release()
		pr := <-pch
		det["paused_request_answer"] = pr.String()
		if cr.Err != nil {
			c.Distinct("G|" + cf.name + "|" + point + "|complete-waits")
			cl.AbortMPU(bucket, key, up)
			continue
		}
		if !cr.OK() || bytes.Contains(cr.Body, []byte("<Error>")) {
			// refused (e.g. InvalidPart because the part changed between listing and completion): no object may exist
			if g := cl.GetObject(bucket, key); g.Status != 404 {
				det["get"] = g.String()
				c.Violation("gated:UploadPart@"+point+"|Complete:refused-but-object-created"+tag, id, det)
			}
			c.Distinct("G|" + cf.name + "|" + point + "|complete-refused")
			cl.AbortMPU(bucket, key, up)
			continue
		}
		g := cl.GetObject(bucket, key)
		det["get"] = g.String()
		if !g.OK() {
			c.Violation("gated:UploadPart@"+point+"|Complete:completed-object-unreadable"+tag, id, det)
			continue
		}
		var first []byte
		switch {
		case bytes.Equal(g.Body, oldB):
			first = oldB
			det["object_made_of"] = "acknowledged upload of part 1"
		case bytes.Equal(g.Body, newB):
			first = newB
			det["object_made_of"] = "paused (not yet answered) upload of part 1"
		default:
			det["object_len"] = len(g.Body)
			c.Violation("gated:UploadPart@"+point+"|Complete:object-is-no-concatenation-of-uploaded-parts"+tag, id, det)
			continue
		}
		if s3c.MD5Hex(first) != listed1 {
			det["etag_of_the_bytes_used"] = s3c.MD5Hex(first)
			c.Violation("gated:UploadPart@"+point+"|Complete:object-built-from-other-bytes-than-the-listed-etag"+tag, id, det)
			continue
		}
		want := s3c.MultipartETag([][]byte{first})
		if et := strings.Trim(g.Header.Get("Etag"), `"`); et != want {
			det["etag"] = et
			det["want_etag"] = want
			c.Violation("gated:UploadPart@"+point+"|Complete:multipart-etag-wrong"+tag, id, det)
			continue
		}
		c.Distinct("G|" + cf.name + "|" + point + "|" + det["object_made_of"].(string))
		c.Add("gated_schedules", 1)
	}
}
