package c08

import (
	"bytes"
	"sort"
	"strings"

	"verif/harness/internal/s3c"
)

// Reference multipart model, written from the property statement (never from /repo).

const (
	miB     = 1 << 20
	minPart = 5 * miB
)

// part is the latest successfully uploaded content of one part number.
type part struct {
	data   []byte
	etag   string   // md5 hex of data
	stale  []string // ETags of earlier, replaced uploads of this number
	listed int64    // size the gateway is expected to list (== len(data) unless a recorded defect changed the stored part)
	taint  string   // "" or the class of an already recorded defect that makes the stored part differ from data
}

// object is what a key is expected to hold.
type object struct {
	chunks   [][]byte
	etag     string
	meta     map[string]string // lower-case name without x-amz-meta- -> value
	tags     map[string]string
	hdr      map[string]string // canonical content header name -> value (only headers given explicitly)
	prev     *object           // what the key held before (classification of stale leftovers)
	taint    string            // assembled from a tainted part
	reported map[string]bool   // aspects already reported for this object (no cascades)
	adopted  bool              // content unknown to the model (after an accepted-but-invalid Complete); only existence is judged
}

func (o *object) size() int64 {
	var n int64
	for _, c := range o.chunks {
		n += int64(len(c))
	}
	return n
}

func (o *object) equalBody(b []byte) bool {
	if int64(len(b)) != o.size() {
		return false
	}
	off := 0
	for _, c := range o.chunks {
		if !bytes.Equal(b[off:off+len(c)], c) {
			return false
		}
		off += len(c)
	}
	return true
}

type upload struct {
	n     int
	id    string
	key   string
	meta  map[string]string
	tags  map[string]string
	hdr   map[string]string
	parts map[int]*part
	state string // live | completed | aborted
	// diverged: an already recorded violation left the gateway's view of this upload different from the
	// model in an unknown way; it is no longer judged exactly (no cascades)
	diverged bool
	// noPart1: the parts of this upload are numbered from 2 on (numbers need not start at 1 nor be consecutive)
	noPart1 bool
}

func (u *upload) numbers() []int {
	var ns []int
	for n := range u.parts {
		ns = append(ns, n)
	}
	sort.Ints(ns)
	return ns
}

// trimQ: the ETag without surrounding quotes and white space
func trimQ(s string) string {
	return strings.TrimSpace(strings.Trim(strings.TrimSpace(s), `"`))
}

// faults evaluates a CompleteMultipartUpload part list against the rules of the property statement:
// every listed part must be the latest successful upload of that number (ETag), numbers strictly
// ascending, every part but the last at least 5 MiB, an optional declared total size must be right.
func (u *upload) faults(list []s3c.Part, declared *int64) []string {
	var f []string
	add := func(s string) {
		for _, x := range f {
			if x == s {
				return
			}
		}
		f = append(f, s)
	}
	if len(list) == 0 {
		return []string{"empty"}
	}
	seen := map[int]bool{}
	prev := 0
	var total int64
	allKnown := true
	anyTaint := false // a stored part already known to differ in size from the model (recorded defect): sizes not judged
	for i, lp := range list {
		if seen[lp.N] {
			add("duplicate-part")
		} else if lp.N <= prev {
			add("wrong-order")
		}
		seen[lp.N] = true
		if lp.N > prev {
			prev = lp.N
		}
		pt := u.parts[lp.N]
		if pt == nil {
			add("unknown-part")
			allKnown = false
			continue
		}
		total += int64(len(pt.data))
		if pt.taint != "" {
			anyTaint = true
		}
		if trimQ(lp.ETag) != pt.etag {
			isStale := false
			for _, s := range pt.stale {
				if s == trimQ(lp.ETag) {
					isStale = true
				}
			}
			if isStale {
				add("stale-etag")
			} else {
				add("wrong-etag")
			}
		}
		if i < len(list)-1 && len(pt.data) < minPart && !(pt.taint != "" && pt.listed >= minPart) {
			add("undersized-part")
		}
	}
	if declared != nil && allKnown && !anyTaint && *declared != total {
		add("wrong-object-size")
	}
	return f
}

// mustFail: faults the statement says must lead to a refusal. An empty list is not named by the
// statement (S3 refuses it); it is generated but its acceptance is only an observation.
func mustFail(f []string) []string {
	var out []string
	for _, x := range f {
		if x != "empty" {
			out = append(out, x)
		}
	}
	return out
}

// assemble builds the object a valid Complete must produce.
func (u *upload) assemble(list []s3c.Part, prev *object) *object {
	o := &object{meta: u.meta, tags: u.tags, hdr: u.hdr, prev: prev, reported: map[string]bool{}}
	var bodies [][]byte
	for _, lp := range list {
		pt := u.parts[lp.N]
		bodies = append(bodies, pt.data)
		if pt.taint != "" {
			o.taint = pt.taint
		}
	}
	o.chunks = bodies
	o.etag = s3c.MultipartETag(bodies)
	return o
}

// bestValid returns a largest part list of u that the rules accept (nil when u has no parts).
func (u *upload) bestValid() []s3c.Part {
	ns := u.numbers()
	if len(ns) == 0 {
		return nil
	}
	var out []s3c.Part
	for i, n := range ns {
		big := len(u.parts[n].data) >= minPart
		if big || i == len(ns)-1 {
			out = append(out, s3c.Part{N: n, ETag: u.parts[n].etag})
		}
	}
	return out
}

func sameMap(a, b map[string]string) bool {
	if len(a) != len(b) {
		return false
	}
	for k, v := range a {
		if w, ok := b[k]; !ok || w != v {
			return false
		}
	}
	return true
}
