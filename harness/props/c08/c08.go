// Package c08: multipart uploads assemble exactly the chosen parts and stay isolated.
//
// Model-based random programs (10-40 steps) over 1-5 concurrent multipart uploads
// (at least two for the same key) against a real gateway process. A reference
// multipart model in the harness (per upload id: initiation metadata / tags /
// content headers, part number -> latest successfully uploaded bytes) decides
// every acknowledged effect: completed objects, refused completes, listings of
// parts / uploads / objects, isolation between uploads, disappearance of upload
// ids after complete / abort.
package c08

import (
	"bytes"
	"fmt"
	"math/rand"
	"os"
	"path/filepath"
	"sort"
	"strings"
	"sync"
	"time"

	"verif/harness/internal/ev"
	"verif/harness/internal/fx"
	"verif/harness/internal/gw"
	"verif/harness/internal/reg"
	"verif/harness/internal/s3c"
)

func init() { reg.Register("C08", "exploration", Run) }

const budgetBytes = 60 * miB

type cfgT struct {
	name    string
	noOTmp  bool
	sidecar bool
}

func (c cfgT) store() string {
	if c.sidecar {
		return "sidecar"
	}
	return "xattr"
}

// worker owns one gateway per configuration and runs programs one after another.
type worker struct {
	c    *ev.Ctx
	n    int
	envs map[string]*fx.Env
}

func (w *worker) env(cf cfgT) (*fx.Env, error) {
	if e := w.envs[cf.name]; e != nil {
		if i, _ := e.Dead(); i < 0 {
			return e, nil
		}
		e.Close()
		delete(w.envs, cf.name)
	}
	e, err := fx.New(fmt.Sprintf("c08w%d", w.n), gw.Config{NoOTmp: cf.noOTmp, Sidecar: cf.sidecar}, 1)
	if err != nil {
		return nil, err
	}
	w.envs[cf.name] = e
	return e, nil
}

func (w *worker) close() {
	for _, e := range w.envs {
		e.Close()
	}
}

type prog struct {
	reportedInternal, reportedHeadPart bool // once per program
	nsib                               int
	c                                  *ev.Ctx
	w                                  *worker
	id                                 string
	cfg                                cfgT
	r                                  *rand.Rand
	env                                *fx.Env
	cl                                 *s3c.Client

	bucket   string
	keys     []string
	uploads  []*upload
	objects  map[string]*object
	spent    int
	maxLive  int
	trace    []string
	dead     bool
	kinds    map[string]bool
	rules    map[string]bool
	complete int
	nextMeta int
}

func (p *prog) logf(format string, a ...any) {
	p.trace = append(p.trace, fmt.Sprintf(format, a...))
}

func (p *prog) result(format string, a ...any) {
	if len(p.trace) > 0 {
		p.trace[len(p.trace)-1] += " => " + fmt.Sprintf(format, a...)
	}
}

func (p *prog) viol(sig string, detail map[string]any) {
	d := map[string]any{"config": p.cfg.name, "bucket": p.bucket}
	for k, v := range detail {
		d[k] = v
	}
	t := p.trace
	if len(t) > 60 {
		t = t[len(t)-60:]
	}
	d["program_so_far"] = append([]string{}, t...)
	p.c.Violation(sig, p.id, d)
}

// req sends one request. A transport error is never judged: if the gateway died the death itself is
// the finding, the gateway is restarted on the same store and the program goes on when the failed
// request was read-only (the model is still exact); otherwise the program is abandoned (inconclusive).
func (p *prog) req(op string, readonly bool, rq *s3c.Req) *s3c.Resp {
	if p.dead {
		return &s3c.Resp{Err: fmt.Errorf("program abandoned")}
	}
	resp := p.cl.Do(rq)
	p.c.Eval(1)
	if resp.Err == nil {
		return resp
	}
	p.env.GWs[0].WaitExit(3 * time.Second)
	if _, cr := p.env.Dead(); cr != nil {
		frame := topFrame(cr.Excerpt)
		p.viol("gateway-died:"+frame, map[string]any{"operation": op, "request": rq.Method + " " + rq.Path + "?" + rq.Query, "crash": cr.Message, "log_excerpt": cr.Excerpt})
		p.result("GATEWAY DIED (%s)", cr.Message)
		p.c.Add("gateway_deaths", 1)
		if err := p.env.Restart(0); err != nil {
			p.c.Inconclusive("gateway restart after crash failed")
			p.dead = true
			return resp
		}
		p.cl = p.env.Client(0)
		if !readonly {
			p.c.Inconclusive("program abandoned: gateway died during a mutating request")
			p.dead = true
		}
		return resp
	}
	p.c.Inconclusive("transport error (" + op + ")")
	p.dead = true
	return resp
}

// topFrame: first versitygw frame of the panic trace (function name with receiver; the shared scraper cuts
// the name at the '(' of a pointer receiver).
func topFrame(excerpt string) string {
	const mod = "github.com/versity/versitygw/"
	for _, l := range strings.Split(excerpt, "\n") {
		if strings.HasPrefix(l, mod) {
			l = strings.TrimPrefix(l, mod)
			if i := strings.LastIndex(l, "("); i > 0 {
				l = l[:i]
			}
			return l
		}
	}
	return "unknown-frame"
}

func (p *prog) live() []*upload {
	var l []*upload
	for _, u := range p.uploads {
		if u.state == "live" {
			l = append(l, u)
		}
	}
	return l
}

func (p *prog) deadUploads() []*upload {
	var l []*upload
	for _, u := range p.uploads {
		if u.state != "live" {
			l = append(l, u)
		}
	}
	return l
}

func (p *prog) bytes(n int) []byte {
	b := make([]byte, n)
	p.r.Read(b)
	p.spent += n
	return b
}

func hdrPairs(m map[string]string, prefix string) []string {
	var ks []string
	for k := range m {
		ks = append(ks, k)
	}
	sort.Strings(ks)
	var out []string
	for _, k := range ks {
		out = append(out, prefix+k, m[k])
	}
	return out
}

func tagHeader(m map[string]string) string {
	var ks []string
	for k := range m {
		ks = append(ks, k)
	}
	sort.Strings(ks)
	var parts []string
	for _, k := range ks {
		parts = append(parts, k+"="+m[k])
	}
	return strings.Join(parts, "&")
}

var contentChoices = map[string][]string{
	"Content-Type":        {"text/plain", "application/x-c08", "image/png"},
	"Content-Disposition": {"attachment; filename=\"a.bin\"", "inline"},
	"Content-Language":    {"en", "de-DE"},
	"Cache-Control":       {"no-cache", "max-age=3600"},
	"Content-Encoding":    {"identity"}, // fiber decodes request bodies by this header (gzip + empty POST body -> refusal): not this property's business
	"Expires":             {"Thu, 01 Jan 2099 00:00:00 GMT", "Fri, 02 Jan 2099 10:00:00 GMT"},
}
var contentNames = []string{"Content-Type", "Content-Disposition", "Content-Language", "Cache-Control", "Content-Encoding", "Expires"}

// attrs draws initiation metadata / tags / content headers.
func (p *prog) attrs() (meta, tags, hdr map[string]string) {
	meta, tags, hdr = map[string]string{}, map[string]string{}, map[string]string{}
	p.nextMeta++
	for _, k := range []string{"alpha", "beta", "gamma"} {
		if p.r.Intn(2) == 0 {
			meta[k] = fmt.Sprintf("m%d-%s", p.nextMeta, k)
		}
	}
	for _, k := range []string{"t1", "t2"} {
		if p.r.Intn(2) == 0 {
			tags[k] = fmt.Sprintf("v%d%s", p.nextMeta, k)
		}
	}
	for _, h := range contentNames {
		if p.r.Intn(5) < 2 {
			c := contentChoices[h]
			hdr[h] = c[p.r.Intn(len(c))]
		}
	}
	return
}

func attrHeaders(meta, tags, hdr map[string]string) []string {
	h := hdrPairs(meta, "X-Amz-Meta-")
	if len(tags) > 0 {
		h = append(h, "X-Amz-Tagging", tagHeader(tags))
	}
	h = append(h, hdrPairs(hdr, "")...)
	return h
}

// ---------------------------------------------------------------------------------------------
// program

func (p *prog) run() {
	r := p.r
	if resp := p.req("create-bucket", false, &s3c.Req{Method: "PUT", Path: s3c.BucketPath(p.bucket)}); !resp.OK() {
		if resp.Err == nil {
			p.c.Inconclusive("create bucket refused: " + resp.String())
		}
		return
	}
	defer p.cleanup()
	pool := []string{"a/one", "a/two", "b/x/three", "four"}
	r.Shuffle(len(pool), func(i, j int) { pool[i], pool[j] = pool[j], pool[i] })
	p.keys = pool
	p.maxLive = 3
	if r.Intn(3) == 0 {
		p.maxLive = 5
	}
	// copy sources
	if !p.putPlain("src/small", 1000) || !p.putPlain("src/big", minPart+17) {
		return
	}
	if r.Intn(2) == 0 {
		if !p.putPlain(p.keys[0], 1+r.Intn(3000)) {
			return
		}
	}
	steps := 10 + r.Intn(31)
	n0 := 1 + r.Intn(3)
	for i := 0; i < n0 && !p.dead; i++ {
		if i < 2 {
			p.opCreate(p.keys[0])
		} else {
			p.opCreate(p.keys[1+r.Intn(len(p.keys)-1)])
		}
	}
	if r.Intn(3) == 0 && !p.dead {
		p.sparseSmall()
	}
	if r.Intn(3) == 0 && !p.dead {
		p.dirSibling()
	}
	for s := n0; s < steps && !p.dead; s++ {
		p.randomStep()
	}
	if !p.dead {
		p.finalize()
	}
	if p.complete > 0 && !p.dead {
		var ks, rs []string
		for k := range p.kinds {
			ks = append(ks, k)
		}
		for k := range p.rules {
			rs = append(rs, k)
		}
		sort.Strings(ks)
		sort.Strings(rs)
		p.c.Distinct("program|" + p.cfg.name + "|" + strings.Join(ks, ",") + "|" + strings.Join(rs, ","))
		p.c.Add("programs_judged", 1)
	}
	p.c.Add("steps", len(p.trace))
	p.c.Sample(map[string]any{"program": p.id, "config": p.cfg.name, "steps": p.trace})
}

func (p *prog) cleanup() {
	// free tmpfs: the store belongs to this worker only
	if p.env != nil && p.env.Store != nil && os.Getenv("VERIF_KEEP") == "" {
		os.RemoveAll(filepath.Join(p.env.Store.Root, p.bucket))
		if p.env.Store.Sidecar != "" {
			os.RemoveAll(filepath.Join(p.env.Store.Sidecar, p.bucket))
		}
	}
}

func (p *prog) putPlain(key string, size int) bool {
	meta, tags, hdr := p.attrs()
	body := p.bytes(size)
	p.logf("put-object %s size=%d", key, size)
	resp := p.req("put-object", false, &s3c.Req{Method: "PUT", Path: s3c.ObjPath(p.bucket, key), Body: body, Header: pairsH(attrHeaders(meta, tags, hdr))})
	if resp.Err != nil {
		return false
	}
	p.result("%s", resp)
	if !resp.OK() {
		p.c.Inconclusive("seed put refused: " + resp.String())
		p.dead = true
		return false
	}
	p.objects[key] = &object{chunks: [][]byte{body}, etag: s3c.MD5Hex(body), meta: meta, tags: tags, hdr: hdr, prev: p.objects[key], reported: map[string]bool{}}
	// how PutObject stores an object is not this property's business: whatever already differs now is the baseline
	p.judgeKey(key, "baseline")
	return !p.dead
}

func pairsH(kv []string) s3c.H {
	var h s3c.H
	for i := 0; i+1 < len(kv); i += 2 {
		h = append(h, [2]string{kv[i], kv[i+1]})
	}
	return h
}

type wop struct {
	w int
	f func()
}

func (p *prog) randomStep() {
	r := p.r
	live := p.live()
	var ops []wop
	add := func(w int, f func()) { ops = append(ops, wop{w, f}) }
	pick := func() *upload { return live[r.Intn(len(live))] }
	if len(live) < p.maxLive {
		w := 5
		if len(live) == 0 {
			w = 40
		} else if p.maxLive > 3 {
			w = 14 // programs with many open uploads (multi-page upload listings)
		}
		add(w, func() {
			key := p.keys[r.Intn(len(p.keys))]
			if r.Intn(2) == 0 {
				key = p.keys[0]
			}
			p.opCreate(key)
		})
	}
	if len(live) > 0 {
		add(30, func() { p.opUploadPart(pick()) })
		add(10, func() { p.opPartCopy(pick()) })
		add(7, func() { p.opListParts(pick()) })
		add(13, func() { p.opComplete(pick()) })
		add(3, func() { p.opAbort(pick()) })
		add(2, func() { p.opForeignKey(pick()) })
		add(2, func() { p.opWrappedPartNumber(pick()) })
		add(1, func() { p.opEmptyUploadID(pick()) })
	}
	add(9, func() { p.opListUploads() })
	add(8, func() { p.opObserve() })
	if len(p.deadUploads()) > 0 {
		add(4, func() { d := p.deadUploads(); p.opZombie(d[r.Intn(len(d))]) })
	}
	if p.spent+3000 < budgetBytes {
		add(2, func() {
			key := p.keys[r.Intn(2)]
			if p.putPlain(key, 1+r.Intn(3000)) {
				p.kinds["put-object"] = true
				p.afterMutation(nil, "put-object")
			}
		})
	}
	total := 0
	for _, o := range ops {
		total += o.w
	}
	x := r.Intn(total)
	for _, o := range ops {
		if x < o.w {
			o.f()
			return
		}
		x -= o.w
	}
}

// ---------------------------------------------------------------------------------------------
// operations

// sparseSmall: an upload whose parts are numbered k .. k+m-1 with k >= m (2,3 / 3,4,5 / 7,9), all small, completed
// with exactly that list: every part but the last is below 5 MiB - the list is invalid whatever the numbers are - so
// no object may be created or replaced; the upload stays usable.
func (p *prog) sparseSmall() {
	before := len(p.uploads)
	p.opCreate(p.keys[p.r.Intn(len(p.keys))])
	if len(p.uploads) == before || p.dead {
		return
	}
	u := p.uploads[len(p.uploads)-1]
	nums := [][]int{{2, 3}, {3, 4, 5}, {7, 9}, {2, 10000}}[p.r.Intn(4)]
	for _, n := range nums {
		body := p.bytes(100 + p.r.Intn(900))
		p.logf("upload-part U%d n=%d size=%d (sparse numbering, small)", u.n, n, len(body))
		resp := p.req("upload-part", false, &s3c.Req{Method: "PUT", Path: s3c.ObjPath(p.bucket, u.key), Query: s3c.Q("partNumber", fmt.Sprint(n), "uploadId", u.id), Body: body})
		if resp.Err != nil {
			return
		}
		p.result("%s", resp)
		if !resp.OK() {
			return
		}
		p.setPart(u, n, body)
	}
	var list []s3c.Part
	for _, n := range u.numbers() {
		list = append(list, s3c.Part{N: n, ETag: u.parts[n].etag})
	}
	p.doComplete(u, completeCase{variant: "sparse-numbers-small-parts", list: list})
}

// dirSibling: the key "x" and the explicit directory object "x/" are two keys. Completing an upload of "x" while the
// empty directory object "x/" exists either fails (as PutObject of "x" does) or leaves "x/" in place with its
// metadata: a completion touches the key it names and no other.
func (p *prog) dirSibling() {
	p.nsib++
	key := fmt.Sprintf("dsib%d", p.nsib)
	cl := p.cl
	if r := cl.PutObject(p.bucket, key+"/", nil, "X-Amz-Meta-Kind", "directory"); !r.OK() {
		p.c.Observe("directory object refused: " + r.String())
		return
	}
	id, r := cl.CreateMPU(p.bucket, key)
	if !r.OK() {
		cl.DeleteObject(p.bucket, key+"/")
		p.c.Distinct(fmt.Sprintf("dir-sibling|create-refused|%d", r.Status))
		return
	}
	body := p.bytes(100 + p.r.Intn(900))
	r1 := cl.UploadPart(p.bucket, key, id, 1, body)
	var rc *s3c.Resp
	if r1.OK() {
		rc = cl.CompleteMPU(p.bucket, key, id, []s3c.Part{{N: 1, ETag: strings.Trim(r1.Header.Get("Etag"), `"`)}})
	}
	p.kinds["complete-beside-directory-object"] = true
	p.c.Eval(1)
	h := cl.Do(&s3c.Req{Method: "HEAD", Path: s3c.ObjPath(p.bucket, key+"/")})
	p.logf("dir-sibling %s/: upload part -> %s, complete -> %v, HEAD %s/ -> %s", key, r1, rc, key, h)
	switch {
	case r1.Err != nil || (rc != nil && rc.Err != nil) || h.Err != nil:
		p.dead = true
		return
	case rc != nil && rc.OK() && !bytes.Contains(rc.Body, []byte("<Error>")) && (h.Status != 200 || h.Header.Get("X-Amz-Meta-Kind") != "directory"):
		p.viol("complete:removed-the-directory-object-beside-its-key", map[string]any{"key": key, "complete": rc.String(), "head_of_directory_object_afterwards": h.String()})
	case h.Status != 200:
		p.viol("complete:refused-but-directory-object-beside-its-key-gone", map[string]any{"key": key, "upload_part": r1.String(), "head_of_directory_object_afterwards": h.String()})
	default:
		st := r1.Status
		if rc != nil {
			st = rc.Status
		}
		p.c.Distinct(fmt.Sprintf("dir-sibling|%d", st))
	}
	cl.AbortMPU(p.bucket, key, id)
	cl.DeleteObject(p.bucket, key)
	cl.DeleteObject(p.bucket, key+"/")
}

func (p *prog) opCreate(key string) {
	meta, tags, hdr := p.attrs()
	p.kinds["create"] = true
	p.logf("create-upload key=%s meta=%v tags=%v hdr=%v", key, meta, tags, hdr)
	resp := p.req("create-upload", false, &s3c.Req{Method: "POST", Path: s3c.ObjPath(p.bucket, key), Query: "uploads=", Header: pairsH(attrHeaders(meta, tags, hdr))})
	if resp.Err != nil {
		return
	}
	if !resp.OK() {
		p.result("%s", resp)
		p.c.Observe("CreateMultipartUpload refused: " + resp.String())
		return
	}
	var o struct{ UploadId, Key, Bucket string }
	xmlDecode(resp.Body, &o)
	if o.UploadId == "" {
		p.viol("create:no-upload-id", map[string]any{"body": string(resp.Body)})
		return
	}
	for _, u := range p.uploads {
		if u.id == o.UploadId {
			p.viol("create:upload-id-reused", map[string]any{"upload_id": o.UploadId})
			return
		}
	}
	u := &upload{n: len(p.uploads), id: o.UploadId, key: key, meta: meta, tags: tags, hdr: hdr, parts: map[int]*part{}, state: "live", noPart1: p.r.Intn(4) == 0}
	p.uploads = append(p.uploads, u)
	p.result("U%d", u.n)
	if o.Key != key {
		p.viol("create:response-key", map[string]any{"want": key, "got": o.Key})
	}
	p.afterMutation(u, "create")
}

var partNumbers = []int{1, 2, 3, 4, 5, 10000}

func (p *prog) choosePartNumber(u *upload) int {
	r := p.r
	have := u.numbers()
	x := r.Intn(100)
	switch {
	case x < 55:
		for _, n := range partNumbers[:5] {
			if n == 1 && u.noPart1 {
				continue
			}
			if u.parts[n] == nil {
				return n
			}
		}
		return have[r.Intn(len(have))]
	case x < 75 && len(have) > 0:
		return have[r.Intn(len(have))]
	}
	return partNumbers[r.Intn(len(partNumbers))]
}

func (p *prog) chooseSize(u *upload, n int) (int, string) {
	r := p.r
	left := budgetBytes - p.spent
	isLast := true
	for m := range u.parts {
		if m > n {
			isLast = false
		}
	}
	x := r.Intn(100)
	var size int
	var class string
	switch {
	case x < 35 || (!isLast && x < 60):
		size, class = minPart, "5MiB"
	case x < 50 || (!isLast && x < 70):
		size, class = minPart+1, "5MiB+1"
	case x < 80:
		size, class = 1+r.Intn(3000), "small"
	case x < 88:
		size, class = 0, "zero"
	default:
		size, class = miB+r.Intn(1000), "undersized-1MiB"
	}
	if size > left {
		size, class = 1+r.Intn(3000), "small"
	}
	return size, class
}

func (p *prog) opUploadPart(u *upload) {
	n := p.choosePartNumber(u)
	// repair bias: an undersized part below the highest number is re-uploaded big now and then
	if p.r.Intn(4) == 0 {
		ns := u.numbers()
		for i, m := range ns {
			if i < len(ns)-1 && len(u.parts[m].data) < minPart {
				n = m
				break
			}
		}
	}
	size, class := p.chooseSize(u, n)
	if ns := u.numbers(); len(ns) > 0 && p.r.Intn(6) == 0 {
		p.opRefusedReupload(u, ns[p.r.Intn(len(ns))])
		return
	}
	if old := u.parts[n]; old != nil {
		class += ":re-upload"
		p.kinds["re-upload-part"] = true
	}
	p.kinds["upload-part"] = true
	body := p.bytes(size)
	p.logf("upload-part U%d n=%d size=%d (%s)", u.n, n, size, class)
	resp := p.req("upload-part", false, &s3c.Req{Method: "PUT", Path: s3c.ObjPath(p.bucket, u.key), Query: s3c.Q("partNumber", fmt.Sprint(n), "uploadId", u.id), Body: body})
	if resp.Err != nil {
		return
	}
	p.result("%s", resp)
	if !resp.OK() {
		p.c.Observe("UploadPart refused: " + resp.String())
		p.afterRefusal(u, "upload-part")
		return
	}
	want := s3c.MD5Hex(body)
	got := trimQ(resp.Header.Get("Etag"))
	p.setPart(u, n, body)
	p.c.Distinct("op|upload-part|" + class)
	if got != want {
		p.viol("upload-part:etag", map[string]any{"part": n, "size": size, "want": want, "got": got})
	}
	p.afterMutation(u, "upload-part")
}

// opRefusedReupload: a re-upload of an existing part number that the gateway refuses (one false integrity assertion):
// "the most recent SUCCESSFUL upload of each listed part" - the part stays what it was, in data, ETag and size.
func (p *prog) opRefusedReupload(u *upload, n int) {
	body := p.bytes(1 + p.r.Intn(3000))
	rq := &s3c.Req{Method: "PUT", Path: s3c.ObjPath(p.bucket, u.key), Query: s3c.Q("partNumber", fmt.Sprint(n), "uploadId", u.id), Body: body}
	other := []byte("not the body that is sent")
	kind := []string{"checksum-crc32", "checksum-sha256", "checksum-crc64nvme", "content-md5", "trailer-crc32"}[p.r.Intn(5)]
	switch kind {
	case "checksum-crc32":
		rq.Header = s3c.H{{"X-Amz-Checksum-Crc32", s3c.Checksum("crc32", other)}}
	case "checksum-sha256":
		rq.Header = s3c.H{{"X-Amz-Checksum-Sha256", s3c.Checksum("sha256", other)}}
	case "checksum-crc64nvme":
		rq.Header = s3c.H{{"X-Amz-Checksum-Crc64nvme", s3c.Checksum("crc64nvme", other)}}
	case "content-md5":
		rq.Header = s3c.H{{"Content-MD5", s3c.MD5B64(other)}}
	case "trailer-crc32":
		rq.Stream = &s3c.Stream{Mode: s3c.StreamUnsignTr, ChunkSizes: []int{1024}, TrailerName: "x-amz-checksum-crc32", TrailerVal: s3c.Checksum("crc32", other)}
	}
	p.kinds["refused-re-upload-part"] = true
	p.logf("upload-part U%d n=%d size=%d (re-upload with a false %s: to be refused)", u.n, n, len(body), kind)
	resp := p.req("upload-part", false, rq)
	if resp.Err != nil {
		return
	}
	p.result("%s", resp)
	if resp.OK() {
		// (whether it should have been refused is C06's business; here the part is simply the new one)
		p.c.Observe("re-upload of a part with a false " + kind + " was acknowledged")
		p.setPart(u, n, body)
		p.afterMutation(u, "upload-part")
		return
	}
	p.c.Distinct("op|upload-part|refused-re-upload:" + kind)
	p.afterMutation(u, "refused-re-upload-part")
}

// opWrappedPartNumber: a part number far outside 1..10000 that equals an existing (or ordinary) part number modulo
// 2^32 / 2^16. It names no part of the upload: the request is refused and every part stays what it was.
func (p *prog) opWrappedPartNumber(u *upload) {
	n := 1
	if ns := u.numbers(); len(ns) > 0 {
		n = ns[p.r.Intn(len(ns))]
	}
	wide := []int64{int64(n) + 1<<32, int64(n) + 3<<32, int64(n) - 1<<32, int64(n) + 1<<16, int64(n) + 1<<31}[p.r.Intn(5)]
	body := p.bytes(1 + p.r.Intn(3000))
	copyForm := p.r.Intn(4) == 0
	rq := &s3c.Req{Method: "PUT", Path: s3c.ObjPath(p.bucket, u.key), Query: s3c.Q("partNumber", fmt.Sprint(wide), "uploadId", u.id), Body: body}
	if copyForm && p.putPlain(p.keys[len(p.keys)-1], 1+p.r.Intn(2000)) {
		rq.Body = nil
		rq.Header = s3c.H{{"X-Amz-Copy-Source", p.bucket + "/" + p.keys[len(p.keys)-1]}}
	} else {
		copyForm = false
	}
	p.kinds["wide-part-number"] = true
	p.logf("upload-part U%d partNumber=%d (no part number; equals %d in a narrower integer) copy=%v", u.n, wide, n, copyForm)
	resp := p.req("upload-part", false, rq)
	if resp.Err != nil {
		return
	}
	p.result("%s", resp)
	if resp.OK() && !bytes.Contains(resp.Body, []byte("<Error>")) {
		p.viol("upload-part:number-outside-the-range-accepted", map[string]any{"part_number_sent": wide, "answer": resp.String(), "equals_in_32_bits": n, "copy_form": copyForm})
		p.dead = true
		return
	}
	p.c.Distinct(fmt.Sprintf("op|upload-part|wide-number|%d|copy=%v", resp.Status, copyForm))
	p.afterMutation(u, "refused-wide-part-number")
}

// opEmptyUploadID: a part upload and a part listing for the key of an open upload whose uploadId argument is present
// but empty. They name no upload: acknowledged part data would belong to none, every upload stays what it was.
func (p *prog) opEmptyUploadID(u *upload) {
	n := partNumbers[p.r.Intn(len(partNumbers))]
	body := p.bytes(1 + p.r.Intn(3000))
	p.kinds["empty-upload-id"] = true
	p.logf("upload-part key of U%d n=%d uploadId= (empty)", u.n, n)
	resp := p.req("upload-part", false, &s3c.Req{Method: "PUT", Path: s3c.ObjPath(p.bucket, u.key), Query: s3c.Q("partNumber", fmt.Sprint(n), "uploadId", ""), Body: body})
	if resp.Err != nil {
		return
	}
	p.result("%s", resp)
	if resp.OK() {
		p.viol("upload-part:empty-upload-id-acknowledged", map[string]any{"part_number": n, "answer": resp.String(), "etag": resp.Header.Get("Etag")})
	} else {
		p.c.Distinct(fmt.Sprintf("op|upload-part|empty-upload-id|%d", resp.Status))
	}
	p.afterMutation(u, "refused-empty-upload-id")
}

func (p *prog) setPart(u *upload, n int, body []byte) *part {
	np := &part{data: body, etag: s3c.MD5Hex(body), listed: int64(len(body))}
	if old := u.parts[n]; old != nil {
		for _, s := range append(old.stale, old.etag) {
			if s != np.etag {
				np.stale = append(np.stale, s)
			}
		}
	}
	u.parts[n] = np
	return np
}

// copyRange is one generated x-amz-copy-source-range.
type copyRange struct {
	class  string
	hdr    string // "" = header absent
	a, b   int64  // expected slice [a, b] when valid
	refuse bool   // the range lies (partly) outside the source or is malformed: must be refused
}

func (p *prog) chooseRange(size int64) copyRange {
	r := p.r
	big := size >= minPart
	x := r.Intn(100)
	switch {
	case x < 22:
		return copyRange{class: "whole", a: 0, b: size - 1}
	case x < 32:
		return copyRange{class: "0-last", hdr: fmt.Sprintf("bytes=0-%d", size-1), a: 0, b: size - 1}
	case x < 50:
		if big && r.Intn(2) == 0 {
			a := r.Int63n(min64(17, size-minPart+1))
			return copyRange{class: "a-b:5MiB", hdr: fmt.Sprintf("bytes=%d-%d", a, a+minPart-1), a: a, b: a + minPart - 1}
		}
		a := r.Int63n(size)
		b := a + r.Int63n(min64(size-a, 4000))
		return copyRange{class: "a-b", hdr: fmt.Sprintf("bytes=%d-%d", a, b), a: a, b: b}
	case x < 56:
		a := r.Int63n(size)
		return copyRange{class: "a-a", hdr: fmt.Sprintf("bytes=%d-%d", a, a), a: a, b: a}
	case x < 70:
		a := size - 1 - r.Int63n(min64(size, 3000))
		if r.Intn(3) == 0 {
			a = 0
		}
		return copyRange{class: "a-", hdr: fmt.Sprintf("bytes=%d-", a), a: a, b: size - 1}
	case x < 78:
		return copyRange{class: "oob-end", hdr: fmt.Sprintf("bytes=%d-%d", r.Int63n(size), size+r.Int63n(3)), refuse: true}
	case x < 86:
		a := size + r.Int63n(3)
		return copyRange{class: "oob-start", hdr: fmt.Sprintf("bytes=%d-%d", a, a+10), refuse: true}
	case x < 90:
		return copyRange{class: "oob-start-open", hdr: fmt.Sprintf("bytes=%d-", size+r.Int63n(3)), refuse: true}
	case x < 95:
		return copyRange{class: "reversed", hdr: fmt.Sprintf("bytes=%d-%d", size/2+5, size/2), refuse: true}
	}
	bad := []string{"bytes=abc", "0-10", "bytes=-5", "bytes=1-2-3", "bits=0-1"}
	return copyRange{class: "malformed", hdr: bad[r.Intn(len(bad))], refuse: true}
}

func min64(a, b int64) int64 {
	if a < b {
		return a
	}
	return b
}

func (p *prog) opPartCopy(u *upload) {
	r := p.r
	// source: one of the seeded objects or any other object the model knows exactly
	var srcs []string
	for k, o := range p.objects {
		if o != nil && !o.adopted && o.taint == "" && o.size() > 0 && !o.reported["body"] && !o.reported["etag"] && !o.reported["unreadable"] {
			srcs = append(srcs, k)
		}
	}
	if len(srcs) == 0 {
		return
	}
	sort.Strings(srcs)
	src := srcs[r.Intn(len(srcs))]
	so := p.objects[src]
	var data []byte
	for _, c := range so.chunks {
		data = append(data, c...)
	}
	size := int64(len(data))
	cr := p.chooseRange(size)
	if !cr.refuse && int(cr.b-cr.a+1) > budgetBytes-p.spent {
		cr = copyRange{class: "a-b", hdr: "bytes=0-9", a: 0, b: min64(9, size-1)}
		cr.hdr = fmt.Sprintf("bytes=0-%d", cr.b)
	}
	n := p.choosePartNumber(u)
	p.kinds["part-copy"] = true
	hdr := s3c.H{{"X-Amz-Copy-Source", s3c.URIEncode(p.bucket+"/"+src, false)}}
	if cr.hdr != "" {
		hdr = append(hdr, [2]string{"X-Amz-Copy-Source-Range", cr.hdr})
	}
	p.logf("upload-part-copy U%d n=%d src=%s(size %d) range=%q (%s)", u.n, n, src, size, cr.hdr, cr.class)
	resp := p.req("upload-part-copy", false, &s3c.Req{Method: "PUT", Path: s3c.ObjPath(p.bucket, u.key), Query: s3c.Q("partNumber", fmt.Sprint(n), "uploadId", u.id), Header: hdr})
	if resp.Err != nil {
		return
	}
	p.result("%s", resp)
	var res struct{ ETag string }
	isResult := resp.OK() && strings.Contains(string(resp.Body), "CopyPartResult") && xmlDecode(resp.Body, &res) == nil
	if !isResult {
		if resp.OK() {
			p.c.Observe("UploadPartCopy answered 2xx without CopyPartResult")
		}
		outcome := "refused"
		if !cr.refuse {
			p.c.Observe("UploadPartCopy with a valid range refused (" + cr.class + "): " + resp.String())
		} else {
			p.rules["copy-range-refused"] = true
		}
		p.c.Distinct("op|part-copy|" + cr.class + "|" + outcome)
		p.afterRefusal(u, "part-copy")
		return
	}
	p.c.Distinct("op|part-copy|" + cr.class + "|accepted")
	if cr.refuse {
		p.viol("part-copy:accepted-bad-range:"+cr.class, map[string]any{"source_size": size, "range": cr.hdr, "part": n})
		// what the part holds now is unknown: the upload leaves exact judgement
		u.parts[n] = &part{data: nil, etag: trimQ(res.ETag), listed: -1, taint: "accepted-bad-range"}
		u.diverged = true
		p.afterMutation(u, "part-copy")
		return
	}
	body := append([]byte{}, data[cr.a:cr.b+1]...)
	p.spent += len(body)
	np := p.setPart(u, n, body)
	if got := trimQ(res.ETag); got != np.etag {
		p.viol("part-copy:etag:"+cr.class, map[string]any{"range": cr.hdr, "source_size": size, "want": np.etag, "got": got})
	}
	p.afterMutationCopy(u, n, cr)
}

func (p *prog) opAbort(u *upload) {
	p.kinds["abort"] = true
	p.logf("abort U%d", u.n)
	resp := p.req("abort", false, &s3c.Req{Method: "DELETE", Path: s3c.ObjPath(p.bucket, u.key), Query: s3c.Q("uploadId", u.id)})
	if resp.Err != nil {
		return
	}
	p.result("%s", resp)
	if !resp.OK() {
		p.c.Observe("AbortMultipartUpload of a live upload refused: " + resp.String())
		p.afterRefusal(u, "abort")
		return
	}
	u.state = "aborted"
	p.c.Distinct(fmt.Sprintf("op|abort|parts=%d|siblings=%d", min(len(u.parts), 2), min(p.siblings(u), 1)))
	p.checkGone(u, "abort")
	p.judgeKey(u.key, "abort")
	p.afterMutation(u, "abort")
}

func (p *prog) siblings(u *upload) int {
	n := 0
	for _, y := range p.live() {
		if y != u && y.key == u.key {
			n++
		}
	}
	return n
}

// opForeignKey uses the upload id of u under another key: nothing may happen.
func (p *prog) opForeignKey(u *upload) {
	var other string
	for _, k := range p.keys {
		if k != u.key {
			other = k
			break
		}
	}
	p.kinds["foreign-key"] = true
	body := p.bytes(10)
	p.logf("upload-part with id of U%d under key %s", u.n, other)
	resp := p.req("foreign-key-upload-part", false, &s3c.Req{Method: "PUT", Path: s3c.ObjPath(p.bucket, other), Query: s3c.Q("partNumber", "1", "uploadId", u.id), Body: body})
	if resp.Err != nil {
		return
	}
	p.result("%s", resp)
	if resp.OK() {
		p.viol("isolation:upload-id-accepted-under-other-key", map[string]any{"upload_key": u.key, "used_key": other})
	} else if resp.ErrCode() != "NoSuchUpload" {
		p.c.Observe("upload id under a foreign key refused with " + resp.String())
	}
	p.c.Distinct("op|foreign-key")
	p.afterMutation(nil, "foreign-key")
}

// opZombie uses a completed / aborted upload id again.
func (p *prog) opZombie(d *upload) {
	r := p.r
	p.kinds["dead-upload-id"] = true
	path := s3c.ObjPath(p.bucket, d.key)
	refused := func(resp *s3c.Resp, what string) {
		if resp.OK() {
			p.viol("dead-upload:"+what+"-accepted", map[string]any{"upload_state": d.state, "key": d.key, "live_siblings_same_key": p.siblings(d)})
		} else if resp.ErrCode() != "NoSuchUpload" {
			p.c.Observe(what + " on a finished upload id refused with " + resp.String())
		}
		p.c.Distinct("op|dead-upload|" + what + "|" + d.state)
	}
	switch r.Intn(4) {
	case 0:
		p.logf("upload-part on finished U%d (%s)", d.n, d.state)
		resp := p.req("dead-upload-part", false, &s3c.Req{Method: "PUT", Path: path, Query: s3c.Q("partNumber", "1", "uploadId", d.id), Body: p.bytes(7)})
		if resp.Err != nil {
			return
		}
		p.result("%s", resp)
		refused(resp, "upload-part")
	case 1:
		p.logf("list-parts on finished U%d (%s)", d.n, d.state)
		resp := p.req("dead-list-parts", true, &s3c.Req{Method: "GET", Path: path, Query: s3c.Q("uploadId", d.id)})
		if resp.Err != nil {
			return
		}
		p.result("%s", resp)
		refused(resp, "list-parts")
		return
	case 2:
		var list []s3c.Part
		for _, n := range d.numbers() {
			list = append(list, s3c.Part{N: n, ETag: d.parts[n].etag})
		}
		if len(list) == 0 {
			list = []s3c.Part{{N: 1, ETag: s3c.MD5Hex(nil)}}
		}
		p.logf("complete on finished U%d (%s)", d.n, d.state)
		resp := p.req("dead-complete", false, &s3c.Req{Method: "POST", Path: path, Query: s3c.Q("uploadId", d.id), Body: s3c.CompleteXML(list)})
		if resp.Err != nil {
			return
		}
		p.result("%s", resp)
		if resp.OK() && strings.Contains(string(resp.Body), "<Error>") {
			return
		}
		refused(resp, "complete")
		if resp.OK() {
			p.adopt(d.key)
		}
	default:
		p.logf("abort on finished U%d (%s)", d.n, d.state)
		resp := p.req("dead-abort", false, &s3c.Req{Method: "DELETE", Path: path, Query: s3c.Q("uploadId", d.id)})
		if resp.Err != nil {
			return
		}
		p.result("%s", resp)
		if resp.OK() {
			p.c.Observe("AbortMultipartUpload of a finished upload id answered " + resp.String())
		}
		p.c.Distinct("op|dead-upload|abort|" + d.state)
	}
	p.judgeKey(d.key, "dead-upload")
	p.afterMutation(nil, "dead-upload")
}

// adopt: the model no longer knows what the key holds (after a recorded violation).
func (p *prog) adopt(key string) {
	p.objects[key] = &object{adopted: true, prev: p.objects[key], reported: map[string]bool{}}
}

// ---------------------------------------------------------------------------------------------
// complete

type completeCase struct {
	variant  string
	list     []s3c.Part
	declared *int64
	declKind string
}

func (p *prog) buildComplete(u *upload) completeCase {
	r := p.r
	ns := u.numbers()
	all := func() []s3c.Part {
		var l []s3c.Part
		for _, n := range ns {
			l = append(l, s3c.Part{N: n, ETag: u.parts[n].etag})
		}
		return l
	}
	cc := completeCase{}
	if len(ns) == 0 {
		if r.Intn(2) == 0 {
			cc.variant = "empty"
		} else {
			cc.variant, cc.list = "unknown-part", []s3c.Part{{N: 1 + r.Intn(5), ETag: s3c.MD5Hex([]byte("x"))}}
		}
		return cc
	}
	hasStale := false
	for _, n := range ns {
		if len(u.parts[n].stale) > 0 {
			hasStale = true
		}
	}
	x := r.Intn(100)
	switch {
	case x < 30:
		cc.variant, cc.list = "all", all()
		if len(mustFail(u.faults(cc.list, nil))) > 0 && r.Intn(2) == 0 {
			cc.variant, cc.list = "best-valid", u.bestValid()
		}
	case x < 36 && len(ns) >= 3:
		// the list leaves out the lowest part: its numbers do not start at 1 and are not 1..n, every other rule applies
		// as before (each part but the last at least 5 MiB, judged by its place in the list, not by its number)
		cc.variant, cc.list = "without-lowest-part", all()[1:]
	case x < 42:
		cc.variant = "subset"
		for _, lp := range all() {
			if r.Intn(3) > 0 {
				cc.list = append(cc.list, lp)
			}
		}
		if len(cc.list) == 0 {
			cc.list = all()[:1]
		}
	case x < 48:
		cc.variant, cc.list = "single", []s3c.Part{all()[r.Intn(len(ns))]}
	case x < 57 && len(ns) >= 2:
		cc.variant, cc.list = "reordered", all()
		i := r.Intn(len(ns) - 1)
		cc.list[i], cc.list[i+1] = cc.list[i+1], cc.list[i]
	case x < 66:
		cc.variant, cc.list = "wrong-etag", all()
		i := r.Intn(len(ns))
		e := []byte(cc.list[i].ETag)
		switch r.Intn(3) {
		case 0:
			if e[0] == 'f' {
				e[0] = '0'
			} else {
				e[0] = 'f'
			}
			cc.list[i].ETag = string(e)
		case 1:
			cc.list[i].ETag = s3c.MD5Hex([]byte("something else"))
		default:
			if len(ns) >= 2 {
				cc.list[i].ETag = cc.list[(i+1)%len(ns)].ETag
				if cc.list[i].ETag == u.parts[cc.list[i].N].etag { // identical content
					cc.list[i].ETag = s3c.MD5Hex([]byte("something else"))
				}
			} else {
				cc.list[i].ETag = ""
			}
		}
	case x < 74 && hasStale:
		cc.variant, cc.list = "stale-etag", all()
		for i, lp := range cc.list {
			if st := u.parts[lp.N].stale; len(st) > 0 {
				cc.list[i].ETag = st[r.Intn(len(st))]
				break
			}
		}
	case x < 81:
		cc.variant, cc.list = "unknown-part", all()
		miss := 0
		for _, n := range []int{6, 7, 9999, 2, 3, 4, 5} {
			if u.parts[n] == nil {
				miss = n
				break
			}
		}
		cc.list = append(cc.list, s3c.Part{N: miss, ETag: s3c.MD5Hex([]byte("never uploaded"))})
		sort.Slice(cc.list, func(i, j int) bool { return cc.list[i].N < cc.list[j].N })
	case x < 87:
		cc.variant, cc.list = "duplicate", all()
		i := r.Intn(len(ns))
		dup := cc.list[i]
		cc.list = append(cc.list[:i+1], append([]s3c.Part{dup}, cc.list[i+1:]...)...)
	case x < 90:
		cc.variant = "empty"
	case x < 92:
		cc.variant, cc.list = "quoted-etags", u.bestValid()
		for i := range cc.list {
			cc.list[i].ETag = `"` + cc.list[i].ETag + `"`
		}
	case x < 96:
		// the right ETags with white space around them (a pretty-printed request document): refusing is fine,
		// accepting too - but then the object must be the one these parts make, with their S3 multipart ETag
		cc.variant, cc.list = "padded-etags", u.bestValid()
		pads := [][2]string{{"\n      ", "\n    "}, {" ", ""}, {"", " "}, {"\t", "\t"}, {"", "\r\n"}, {` "`, `" `}}
		for i := range cc.list {
			if i == 0 || r.Intn(2) == 0 {
				pd := pads[r.Intn(len(pads))]
				cc.list[i].ETag = pd[0] + cc.list[i].ETag + pd[1]
			}
		}
	default:
		cc.variant, cc.list = "best-valid", u.bestValid()
	}
	// declared total size
	if len(cc.list) > 0 {
		var total int64
		known := true
		for _, lp := range cc.list {
			if pt := u.parts[lp.N]; pt != nil {
				total += int64(len(pt.data))
			} else {
				known = false
			}
		}
		if known {
			switch y := r.Intn(100); {
			case y < 15:
				cc.declared, cc.declKind = &total, "declared-right"
			case y < 30:
				w := total + int64(1+r.Intn(3))
				if r.Intn(2) == 0 && total > 0 {
					w = total - 1
				}
				cc.declared, cc.declKind = &w, "declared-wrong"
			}
		}
	}
	return cc
}

func tainted(u *upload, list []s3c.Part) string {
	for _, lp := range list {
		if pt := u.parts[lp.N]; pt != nil && pt.taint != "" {
			return pt.taint
		}
	}
	return ""
}

func (p *prog) opComplete(u *upload) {
	cc := p.buildComplete(u)
	p.doComplete(u, cc)
}

func (p *prog) doComplete(u *upload, cc completeCase) {
	p.kinds["complete"] = true
	p.complete++
	faults := u.faults(cc.list, cc.declared)
	must := mustFail(faults)
	taint := tainted(u, cc.list)
	if u.diverged {
		taint = "diverged"
	}
	var hdr s3c.H
	if cc.declared != nil {
		hdr = s3c.H{{"X-Amz-Mp-Object-Size", fmt.Sprint(*cc.declared)}}
	}
	desc := []string{}
	for _, lp := range cc.list {
		sz := -1
		if pt := u.parts[lp.N]; pt != nil {
			sz = len(pt.data)
		}
		desc = append(desc, fmt.Sprintf("%d(%dB,%.6s)", lp.N, sz, lp.ETag))
	}
	p.logf("complete U%d variant=%s %s parts=%v model-faults=%v", u.n, cc.variant, cc.declKind, desc, faults)
	resp := p.req("complete", false, &s3c.Req{Method: "POST", Path: s3c.ObjPath(p.bucket, u.key), Query: s3c.Q("uploadId", u.id), Body: s3c.CompleteXML(cc.list), Header: hdr})
	if resp.Err != nil {
		return
	}
	p.result("%s", resp)
	var res struct{ ETag, Key string }
	accepted := resp.OK() && !strings.Contains(string(resp.Body), "<Error>") && xmlDecode(resp.Body, &res) == nil
	class := "valid"
	if len(faults) > 0 {
		class = strings.Join(faults, "+")
	}
	nclass := "1"
	if len(cc.list) > 1 {
		nclass = "n"
	}
	outcome := "refused"
	if accepted {
		outcome = "accepted"
	}
	if taint == "" {
		p.c.Distinct("op|complete|" + cc.variant + "|" + class + "|" + cc.declKind + "|" + nclass + "|" + outcome)
		p.rules[class+"/"+outcome] = true
	}
	if !accepted {
		if len(faults) == 0 && taint == "" {
			if cc.variant == "quoted-etags" || cc.variant == "padded-etags" {
				p.c.Observe("Complete with " + cc.variant + " refused (over-strict): " + resp.String())
			} else {
				p.c.Observe("valid Complete refused (over-denial): " + resp.String())
			}
		} else if len(must) > 0 {
			want := map[string]string{"wrong-order": "InvalidPartOrder", "duplicate-part": "InvalidPartOrder", "wrong-etag": "InvalidPart", "stale-etag": "InvalidPart", "unknown-part": "InvalidPart", "undersized-part": "EntityTooSmall"}
			if len(must) == 1 && want[must[0]] != "" && resp.ErrCode() != want[must[0]] {
				p.c.Observe(fmt.Sprintf("Complete with %s refused with %s (S3: %s)", must[0], resp.String(), want[must[0]]))
			}
		}
		// refused: the key is exactly as before and the upload is still usable
		p.judgeKey(u.key, "failed-complete")
		p.afterRefusal(u, "failed-complete")
		return
	}
	// acknowledged
	prev := p.objects[u.key]
	u.state = "completed"
	if u.diverged {
		p.adopt(u.key)
		p.checkGone(u, "complete")
		p.afterMutation(u, "complete")
		return
	}
	if len(must) > 0 {
		p.viol("complete:accepted-"+must[0], map[string]any{"variant": cc.variant, "faults": faults, "parts": desc, "declared_size": cc.declared})
		p.adopt(u.key)
		p.checkGone(u, "complete")
		p.afterMutation(u, "complete")
		return
	}
	if len(faults) > 0 { // empty list accepted
		p.c.Observe("Complete with an empty part list accepted")
		p.adopt(u.key)
		p.afterMutation(u, "complete")
		return
	}
	o := u.assemble(cc.list, prev)
	p.objects[u.key] = o
	if taint != "" {
		// a part of this upload is already known to differ from the model: the defect was recorded there
		o.adopted = true
	} else {
		if got := trimQ(res.ETag); got != o.etag {
			p.viol("complete:response-etag", map[string]any{"want": o.etag, "got": got, "parts": desc})
		}
		if res.Key != "" && res.Key != u.key {
			p.viol("complete:response-key", map[string]any{"want": u.key, "got": res.Key})
		}
		p.judgeKey(u.key, "complete")
	}
	p.checkGone(u, "complete")
	p.afterMutation(u, "complete")
}

// finalize completes every upload that is still open with a valid list: a sibling upload of the same
// key must still be usable after the other was completed and must replace the object.
func (p *prog) finalize() {
	for _, u := range p.live() {
		if p.dead {
			return
		}
		if len(u.parts) == 0 {
			body := p.bytes(1 + p.r.Intn(500))
			p.logf("upload-part U%d n=1 size=%d (final)", u.n, len(body))
			resp := p.req("upload-part", false, &s3c.Req{Method: "PUT", Path: s3c.ObjPath(p.bucket, u.key), Query: s3c.Q("partNumber", "1", "uploadId", u.id), Body: body})
			if resp.Err != nil {
				return
			}
			p.result("%s", resp)
			if !resp.OK() {
				continue
			}
			p.setPart(u, 1, body)
		}
		sib := ""
		for _, d := range p.deadUploads() {
			if d.key == u.key && d.state == "completed" {
				sib = "after-sibling-completed"
			}
		}
		if p.r.Intn(3) == 0 {
			// first with white space around the (right) ETags: refused or accepted, see buildComplete
			pc := completeCase{variant: "padded-etags", list: u.bestValid(), declKind: sib}
			for i := range pc.list {
				pc.list[i].ETag = []string{"\n      ", " ", "\t", ""}[p.r.Intn(4)] + pc.list[i].ETag + []string{"\n    ", " ", "\r\n"}[p.r.Intn(3)]
			}
			p.doComplete(u, pc)
			if p.dead {
				return
			}
			if u.state == "completed" {
				continue
			}
		}
		cc := completeCase{variant: "final", list: u.bestValid(), declKind: sib}
		p.doComplete(u, cc)
	}
	if p.dead {
		return
	}
	p.listUploadsPlain("final")
	p.checkListing("final", "")
	// nothing of any upload is left on disk
	if len(p.live()) == 0 {
		left := []string{}
		root := filepath.Join(p.env.Store.Root, p.bucket, ".sgwtmp", "multipart")
		filepath.Walk(root, func(path string, fi os.FileInfo, err error) error {
			if err == nil && path != root {
				rel, _ := filepath.Rel(root, path)
				left = append(left, rel)
			}
			return nil
		})
		if len(left) > 0 {
			kind := "directories"
			for _, l := range left {
				if strings.Count(l, "/") >= 2 {
					kind = "part-files"
				}
			}
			if len(left) > 8 {
				left = left[:8]
			}
			p.viol("leftover:"+kind+"-on-disk-after-all-uploads-finished", map[string]any{"left": left})
		}
		if p.env.Store.Sidecar != "" {
			n := 0
			sroot := filepath.Join(p.env.Store.Sidecar, p.bucket, ".sgwtmp", "multipart")
			filepath.Walk(sroot, func(path string, fi os.FileInfo, err error) error {
				if err == nil && path != sroot {
					n++
				}
				return nil
			})
			if n > 0 {
				p.c.Observe("sidecar metadata of finished uploads left behind (invisible through the API)")
			}
		}
		p.c.Distinct("op|final-leftover-check|" + p.cfg.name)
	}
}

// ---------------------------------------------------------------------------------------------
// Run

func Run(c *ev.Ctx) int {
	c.Assume("single gateway process per store, requests of one program strictly sequential (interleaving is in the order of operations on several uploads, not in time)")
	c.Assume("checksum algorithms / types at initiation are not exercised (C06 territory); object lock headers are not used")
	c.Assume("ordering of uploads of the same key in ListMultipartUploads is not judged (S3: by initiation time); only completeness, no duplicates, marker semantics on keys")
	c.Assume("a Complete with an empty part list is generated but its acceptance is not judged (the statement names ETags, order and sizes only)")
	cfgs := []cfgT{{"otmp+xattr", false, false}, {"named+sidecar", true, true}}
	if c.Thorough() {
		cfgs = append(cfgs, cfgT{"named+xattr", true, false}, cfgT{"otmp+sidecar", false, true})
	}
	nprog := c.Pick(24, 2000)
	jobs := make(chan int)
	var wg sync.WaitGroup
	for wn := 0; wn < 6; wn++ {
		wg.Add(1)
		go func(wn int) {
			defer wg.Done()
			w := &worker{c: c, n: wn, envs: map[string]*fx.Env{}}
			defer w.close()
			for idx := range jobs {
				runOne(c, w, cfgs, idx)
			}
		}(wn)
	}
	for i := 0; i < nprog; i++ {
		if c.Want(fmt.Sprintf("P/%d", i)) {
			jobs <- i
		}
	}
	close(jobs)
	wg.Wait()
	for _, cf := range cfgs {
		wg.Add(1)
		go func(cf cfgT) {
			defer wg.Done()
			gatedLane(c, cf)
			listPartsPaging(c, cf)
		}(cf)
	}
	wg.Wait()
	return c.Finish("random programs of 10-40 steps over 1-5 concurrent multipart uploads (>= 2 for the same key) per bucket, decided by a reference multipart model; distinct = program shape (configuration, set of step kinds, set of validation rules x outcome, at least one Complete) plus operation classes (complete: variant x model faults x declared size x outcome; part-copy: range class x outcome; part sizes; list variants; finished-id reuse)", 30)
}

func runOne(c *ev.Ctx, w *worker, cfgs []cfgT, idx int) {
	cf := cfgs[idx%len(cfgs)]
	env, err := w.env(cf)
	if err != nil {
		c.Inconclusive("gateway start: " + err.Error())
		return
	}
	p := &prog{c: c, w: w, id: fmt.Sprintf("P/%d", idx), cfg: cf, r: c.Rng(fmt.Sprintf("prog/%d", idx)), env: env, cl: env.Client(0),
		bucket: fmt.Sprintf("prog%04d", idx), objects: map[string]*object{}, kinds: map[string]bool{}, rules: map[string]bool{}}
	p.run()
}
