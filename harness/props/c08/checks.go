package c08

import (
	"crypto/sha256"
	"encoding/xml"
	"fmt"
	"sort"
	"strings"

	"verif/harness/internal/s3c"
)

func xmlDecode(b []byte, v any) error { return xml.Unmarshal(b, v) }

type lpEntry struct {
	PartNumber int
	ETag       string
	Size       int64
}

type lpResult struct {
	IsTruncated          bool
	NextPartNumberMarker int
	MaxParts             int
	Part                 []lpEntry
}

type luEntry struct{ Key, UploadId string }

type luResult struct {
	IsTruncated        bool
	NextKeyMarker      string
	NextUploadIdMarker string
	MaxUploads         int
	Upload             []luEntry
	CommonPrefixes     []struct{ Prefix string }
}

// ---------------------------------------------------------------------------------------------
// parts of one upload

func (p *prog) listPartsPage(u *upload, readonlyOp string, kv ...string) (*lpResult, *s3c.Resp) {
	q := s3c.Q(append([]string{"uploadId", u.id}, kv...)...)
	resp := p.req(readonlyOp, true, &s3c.Req{Method: "GET", Path: s3c.ObjPath(p.bucket, u.key), Query: q})
	if resp.Err != nil || !resp.OK() {
		return nil, resp
	}
	var r lpResult
	if err := xmlDecode(resp.Body, &r); err != nil {
		return nil, resp
	}
	return &r, resp
}

type partDiff struct {
	aspect string
	part   int
	text   string
}

// diffParts compares a complete enumeration of parts with the model (numbers > marker).
func diffParts(u *upload, got []lpEntry, marker int) []partDiff {
	var d []partDiff
	seen := map[int]bool{}
	prev := 0
	for _, e := range got {
		if seen[e.PartNumber] {
			d = append(d, partDiff{"duplicate-part", e.PartNumber, fmt.Sprintf("part %d listed twice", e.PartNumber)})
			continue
		}
		seen[e.PartNumber] = true
		if e.PartNumber < prev {
			d = append(d, partDiff{"order", e.PartNumber, fmt.Sprintf("part %d after part %d", e.PartNumber, prev)})
		}
		prev = e.PartNumber
		pt := u.parts[e.PartNumber]
		if pt == nil {
			d = append(d, partDiff{"unknown-part", e.PartNumber, fmt.Sprintf("part %d was never uploaded to this upload (size %d etag %s)", e.PartNumber, e.Size, e.ETag)})
			continue
		}
		if e.PartNumber <= marker {
			d = append(d, partDiff{"marker-not-skipped", e.PartNumber, fmt.Sprintf("part %d listed although part-number-marker=%d", e.PartNumber, marker)})
		}
		if pt.listed >= 0 && e.Size != pt.listed {
			d = append(d, partDiff{"size", e.PartNumber, fmt.Sprintf("part %d listed with size %d, uploaded %d bytes", e.PartNumber, e.Size, pt.listed)})
		}
		if trimQ(e.ETag) != pt.etag {
			d = append(d, partDiff{"etag", e.PartNumber, fmt.Sprintf("part %d listed with etag %s, latest upload has %s", e.PartNumber, e.ETag, pt.etag)})
		}
	}
	for _, n := range u.numbers() {
		if n > marker && !seen[n] {
			d = append(d, partDiff{"missing-part", n, fmt.Sprintf("part %d (size %d) not listed", n, len(u.parts[n].data))})
		}
	}
	return d
}

func diffText(d []partDiff) []string {
	var s []string
	for _, x := range d {
		s = append(s, x.text)
	}
	return s
}

// checkUploads compares every live upload with the model after an operation by actor (nil = none).
// copyPart / copyClass: the part just written by UploadPartCopy (size differences there get the copy signature).
func (p *prog) checkUploads(actor *upload, op string, refused bool, copyPart int, copyClass string) {
	for _, y := range p.live() {
		if p.dead {
			return
		}
		if y.diverged {
			continue
		}
		res, resp := p.listPartsPage(y, "list-parts(check)")
		if resp.Err != nil {
			return
		}
		if res == nil {
			if y == actor {
				p.viol(op+":upload-gone", map[string]any{"upload": y.n, "list_parts": resp.String()})
			} else {
				p.viol("isolation:other-upload-gone", map[string]any{"operation": op, "other_upload": y.n, "same_key": actor != nil && actor.key == y.key, "list_parts": resp.String()})
			}
			y.diverged = true
			continue
		}
		d := diffParts(y, res.Part, 0)
		if len(d) == 0 {
			continue
		}
		switch {
		case y != actor:
			same := actor != nil && actor.key == y.key
			p.viol("isolation:other-upload-changed", map[string]any{"operation": op, "other_upload": y.n, "same_key": same, "differences": diffText(d)})
			y.diverged = true
		case refused:
			p.viol(op+":upload-changed", map[string]any{"upload": y.n, "differences": diffText(d)})
			y.diverged = true
		default:
			onlyCopySize := copyPart > 0
			for _, x := range d {
				if x.aspect != "size" || x.part != copyPart {
					onlyCopySize = false
				}
			}
			if onlyCopySize {
				var gotSize int64
				for _, e := range res.Part {
					if e.PartNumber == copyPart {
						gotSize = e.Size
					}
				}
				p.viol("part-copy:range-length:"+copyClass, map[string]any{"part": copyPart, "differences": diffText(d)})
				pt := y.parts[copyPart]
				pt.listed = gotSize
				pt.taint = "part-copy-range-length"
			} else {
				p.viol(op+":list-parts-"+d[0].aspect, map[string]any{"upload": y.n, "differences": diffText(d)})
				y.diverged = true
			}
		}
	}
}

func (p *prog) afterMutation(u *upload, op string) {
	p.checkUploads(u, op, false, 0, "")
	key := ""
	if u != nil {
		key = u.key
	}
	p.checkListing(op, key)
}

func (p *prog) afterMutationCopy(u *upload, n int, cr copyRange) {
	p.checkUploads(u, "part-copy", false, n, cr.class)
	p.checkListing("part-copy", u.key)
}

func (p *prog) afterRefusal(u *upload, op string) {
	p.checkUploads(u, op, true, 0, "")
	p.checkListing(op, u.key)
}

// checkGone: after complete / abort the upload id and its parts are gone.
func (p *prog) checkGone(u *upload, op string) {
	res, resp := p.listPartsPage(u, "list-parts(gone?)")
	if resp.Err != nil {
		return
	}
	if res != nil {
		p.viol(op+":list-parts-still-answers", map[string]any{"upload": u.n, "parts_listed": len(res.Part)})
	} else if resp.Status != 404 || resp.ErrCode() != "NoSuchUpload" {
		p.c.Observe("ListParts of a finished upload answers " + resp.String() + " (S3: 404 NoSuchUpload)")
	}
	p.listUploadsPlain(op)
}

// ---------------------------------------------------------------------------------------------
// uploads of the bucket

func (p *prog) listUploadsPage(op string, kv ...string) (*luResult, *s3c.Resp) {
	q := "uploads="
	if len(kv) > 0 {
		q += "&" + s3c.Q(kv...)
	}
	resp := p.req(op, true, &s3c.Req{Method: "GET", Path: s3c.BucketPath(p.bucket), Query: q})
	if resp.Err != nil || !resp.OK() {
		return nil, resp
	}
	var r luResult
	if err := xmlDecode(resp.Body, &r); err != nil {
		return nil, resp
	}
	return &r, resp
}

func (p *prog) byID(id string) *upload {
	for _, u := range p.uploads {
		if u.id == id {
			return u
		}
	}
	return nil
}

// judgeUploadSet compares listed uploads with the expected subset of live uploads.
// mandatory: must be listed; optional: may be listed; everything else must not be listed.
func (p *prog) judgeUploadSet(sigPrefix string, got []luEntry, mandatory, optional map[string]bool, detail map[string]any) {
	seen := map[string]bool{}
	var problems = map[string][]string{}
	for _, e := range got {
		u := p.byID(e.UploadId)
		name := e.Key + "#" + e.UploadId
		if u != nil {
			name = fmt.Sprintf("U%d(%s,%s)", u.n, u.key, u.state)
		}
		if seen[e.UploadId] {
			problems["duplicate"] = append(problems["duplicate"], name)
			continue
		}
		seen[e.UploadId] = true
		switch {
		case u == nil:
			problems["unknown-upload"] = append(problems["unknown-upload"], name)
		case u.state != "live":
			problems["finished-upload-listed"] = append(problems["finished-upload-listed"], name)
		case u.key != e.Key:
			problems["wrong-key"] = append(problems["wrong-key"], name+" listed under "+e.Key)
		case !mandatory[u.id] && !optional[u.id]:
			problems["not-skipped"] = append(problems["not-skipped"], name)
		}
	}
	for id := range mandatory {
		if !seen[id] {
			u := p.byID(id)
			problems["missing"] = append(problems["missing"], fmt.Sprintf("U%d(%s)", u.n, u.key))
		}
	}
	var ks []string
	for k := range problems {
		ks = append(ks, k)
	}
	sort.Strings(ks)
	for _, k := range ks {
		d := map[string]any{"uploads": problems[k], "live_uploads": p.liveNames()}
		for a, b := range detail {
			d[a] = b
		}
		sort.Strings(problems[k])
		p.viol(sigPrefix+"-"+k, d)
	}
}

func (p *prog) liveNames() []string {
	var s []string
	for _, u := range p.live() {
		s = append(s, fmt.Sprintf("U%d(%s)", u.n, u.key))
	}
	return s
}

func (p *prog) liveSet(f func(u *upload) bool) map[string]bool {
	m := map[string]bool{}
	for _, u := range p.live() {
		if f == nil || f(u) {
			m[u.id] = true
		}
	}
	return m
}

func (p *prog) listUploadsPlain(ctx string) {
	res, resp := p.listUploadsPage("list-uploads(" + ctx + ")")
	if resp.Err != nil {
		return
	}
	if res == nil {
		p.c.Observe("ListMultipartUploads refused: " + resp.String())
		return
	}
	if res.IsTruncated {
		p.c.Observe("ListMultipartUploads without max-uploads truncated")
		return
	}
	prefix := "list-uploads:plain"
	if ctx == "complete" || ctx == "abort" {
		prefix = ctx + ":list-uploads"
	}
	p.judgeUploadSet(prefix, res.Upload, p.liveSet(nil), nil, map[string]any{"context": ctx})
}

func (p *prog) opListUploads() {
	r := p.r
	p.kinds["list-uploads"] = true
	live := p.live()
	nclass := fmt.Sprintf("live=%d", min(len(live), 4))
	x := r.Intn(100)
	if len(live) >= 4 && r.Intn(2) == 0 {
		x = 50 // many open uploads: multi-page chains
	}
	switch {
	case x < 15:
		p.logf("list-uploads")
		p.listUploadsPlain("step")
		p.c.Distinct("op|list-uploads|plain|" + nclass)
	case x < 30:
		prefixes := []string{"a/", "a/o", "a/t", "b", "b/x/", "f", "zz", "four", ""}
		pf := prefixes[r.Intn(len(prefixes))]
		p.logf("list-uploads prefix=%q", pf)
		res, resp := p.listUploadsPage("list-uploads", "prefix", pf)
		if resp.Err != nil || res == nil {
			return
		}
		p.result("%d uploads", len(res.Upload))
		p.judgeUploadSet("list-uploads:prefix", res.Upload, p.liveSet(func(u *upload) bool { return strings.HasPrefix(u.key, pf) }), nil, map[string]any{"prefix": pf})
		p.c.Distinct("op|list-uploads|prefix|" + nclass)
	case x < 42:
		pf := []string{"", "a/", "b/"}[r.Intn(3)]
		p.logf("list-uploads delimiter=/ prefix=%q", pf)
		res, resp := p.listUploadsPage("list-uploads", "delimiter", "/", "prefix", pf)
		if resp.Err != nil || res == nil {
			return
		}
		p.result("%d uploads %d common prefixes", len(res.Upload), len(res.CommonPrefixes))
		covered := func(key string) bool {
			for _, cp := range res.CommonPrefixes {
				if cp.Prefix != "" && strings.HasPrefix(key, cp.Prefix) {
					return true
				}
			}
			return false
		}
		rolled := false
		mand, opt := map[string]bool{}, map[string]bool{}
		for _, u := range live {
			if !strings.HasPrefix(u.key, pf) {
				continue
			}
			if covered(u.key) {
				opt[u.id] = true
			} else {
				mand[u.id] = true
				if strings.Contains(u.key[len(pf):], "/") {
					rolled = true
				}
			}
		}
		if rolled {
			p.c.Observe("ListMultipartUploads ignores the delimiter (uploads below a common prefix listed individually)")
		}
		p.judgeUploadSet("list-uploads:delimiter", res.Upload, mand, opt, map[string]any{"prefix": pf, "delimiter": "/"})
		p.c.Distinct("op|list-uploads|delimiter|" + nclass)
	case x < 70:
		// max-uploads chain
		m := 1 + r.Intn(3)
		if len(live) >= 4 {
			m = 1 + r.Intn(2)
		}
		p.logf("list-uploads chain max-uploads=%d", m)
		var all []luEntry
		km, um := "", ""
		pages := 0
		for {
			kv := []string{"max-uploads", fmt.Sprint(m)}
			if pages > 0 {
				kv = append(kv, "key-marker", km, "upload-id-marker", um)
			}
			res, resp := p.listUploadsPage("list-uploads(chain)", kv...)
			if resp.Err != nil {
				return
			}
			if res == nil {
				p.c.Observe("ListMultipartUploads chain page refused: " + resp.String())
				return
			}
			pages++
			if len(res.Upload) > m {
				p.c.Observe("ListMultipartUploads page holds more than max-uploads entries")
			}
			all = append(all, res.Upload...)
			if !res.IsTruncated {
				break
			}
			if res.NextKeyMarker == "" {
				p.viol("list-uploads:marker-chain-no-next-marker", map[string]any{"max_uploads": m, "page": pages})
				return
			}
			if pages > len(live)+3 {
				p.viol("list-uploads:marker-chain-nonterminating", map[string]any{"max_uploads": m, "pages": pages, "live_uploads": p.liveNames()})
				return
			}
			km, um = res.NextKeyMarker, res.NextUploadIdMarker
		}
		p.result("%d pages %d uploads", pages, len(all))
		p.judgeUploadSet("list-uploads:marker-chain", all, p.liveSet(nil), nil, map[string]any{"max_uploads": m, "pages": pages})
		if pages > 1 {
			p.c.Distinct(fmt.Sprintf("op|list-uploads|chain|pages=%d|%s", min(pages, 3), nclass))
		}
	case x < 85:
		// key-marker alone: exactly the uploads whose key sorts after the marker
		cands := []string{"a", "a/one", "a/p", "a/two", "b/x/three", "c", "four", "zzz", "0"}
		k := cands[r.Intn(len(cands))]
		p.logf("list-uploads key-marker=%q", k)
		res, resp := p.listUploadsPage("list-uploads(key-marker)", "key-marker", k)
		if resp.Err != nil || res == nil {
			return
		}
		p.result("%d uploads", len(res.Upload))
		exists := "absent-key"
		for _, u := range live {
			if u.key == k {
				exists = "key-of-live-upload"
			}
		}
		p.judgeUploadSet("list-uploads:key-marker:"+exists, res.Upload, p.liveSet(func(u *upload) bool { return u.key > k }), nil, map[string]any{"key_marker": k})
		p.c.Distinct("op|list-uploads|key-marker|" + exists + "|" + nclass)
	default:
		// key-marker + upload-id-marker naming a live upload
		if len(live) == 0 {
			return
		}
		mu := live[r.Intn(len(live))]
		p.logf("list-uploads key-marker=%q upload-id-marker=U%d", mu.key, mu.n)
		res, resp := p.listUploadsPage("list-uploads(id-marker)", "key-marker", mu.key, "upload-id-marker", mu.id)
		if resp.Err != nil || res == nil {
			return
		}
		p.result("%d uploads", len(res.Upload))
		mand := p.liveSet(func(u *upload) bool { return u.key > mu.key })
		opt := p.liveSet(func(u *upload) bool { return u.key == mu.key && u != mu })
		p.judgeUploadSet("list-uploads:upload-id-marker", res.Upload, mand, opt, map[string]any{"key_marker": mu.key, "upload_id_marker": fmt.Sprintf("U%d", mu.n)})
		p.c.Distinct("op|list-uploads|id-marker|" + nclass)
	}
}

func (p *prog) opListParts(u *upload) {
	r := p.r
	p.kinds["list-parts"] = true
	if u.diverged {
		return
	}
	m := []int{0, 1, 2, 3, 1000}[r.Intn(5)]
	marker := -1
	mk := "none"
	switch r.Intn(5) {
	case 0:
		marker, mk = 0, "zero"
	case 1:
		if ns := u.numbers(); len(ns) > 0 {
			marker, mk = ns[r.Intn(len(ns))], "existing"
		}
	case 2:
		marker, mk = []int{2, 4, 6, 9999, 10000}[r.Intn(5)], "arbitrary"
	}
	p.logf("list-parts U%d max-parts=%d part-number-marker=%d", u.n, m, marker)
	var all []lpEntry
	pages := 0
	cur := marker
	for {
		var kv []string
		if m > 0 {
			kv = append(kv, "max-parts", fmt.Sprint(m))
		}
		if cur >= 0 {
			kv = append(kv, "part-number-marker", fmt.Sprint(cur))
		}
		res, resp := p.listPartsPage(u, "list-parts", kv...)
		if resp.Err != nil {
			return
		}
		if res == nil {
			p.viol("list-parts:refused-for-live-upload", map[string]any{"upload": u.n, "answer": resp.String(), "max_parts": m, "marker": cur})
			return
		}
		pages++
		if m > 0 && len(res.Part) > m {
			p.c.Observe("ListParts page holds more than max-parts entries")
		}
		all = append(all, res.Part...)
		if !res.IsTruncated {
			break
		}
		if pages > len(u.parts)+3 {
			p.viol("list-parts:marker-chain-nonterminating", map[string]any{"upload": u.n, "max_parts": m, "pages": pages})
			return
		}
		if res.NextPartNumberMarker <= cur {
			p.viol("list-parts:marker-chain-not-advancing", map[string]any{"upload": u.n, "max_parts": m, "marker": cur, "next": res.NextPartNumberMarker})
			return
		}
		cur = res.NextPartNumberMarker
	}
	p.result("%d pages %d parts", pages, len(all))
	eff := marker
	if eff < 0 {
		eff = 0
	}
	chain := ""
	if pages > 1 {
		chain = "marker-chain-"
	}
	if d := diffParts(u, all, eff); len(d) > 0 {
		p.viol("list-parts:"+chain+d[0].aspect, map[string]any{"upload": u.n, "max_parts": m, "marker": marker, "pages": pages, "differences": diffText(d)})
	}
	p.c.Distinct(fmt.Sprintf("op|list-parts|max=%d|marker=%s|pages=%d|parts=%d", m, mk, min(pages, 3), min(len(u.parts), 3)))
}

// ---------------------------------------------------------------------------------------------
// objects

func internalName(p *prog, key string) bool {
	if strings.Contains(key, ".sgwtmp") || strings.Contains(key, ".tmp") {
		return true
	}
	for _, u := range p.uploads {
		if strings.Contains(key, u.id) {
			return true
		}
		h := fmt.Sprintf("%x", sha256.Sum256([]byte(u.key)))
		if strings.Contains(key, h) {
			return true
		}
	}
	return false
}

// checkListing: ListObjectsV2 shows exactly the objects of the model. actorKey: key of the upload the
// preceding operation worked on ("" = none); differences on other keys are isolation failures.
func (p *prog) checkListing(op, actorKey string) {
	if p.dead {
		return
	}
	resp := p.req("list-objects("+op+")", true, &s3c.Req{Method: "GET", Path: s3c.BucketPath(p.bucket), Query: "list-type=2"})
	if resp.Err != nil {
		return
	}
	if !resp.OK() {
		p.viol("list-objects:refused", map[string]any{"answer": resp.String(), "after": op})
		return
	}
	res, err := s3c.ParseList(resp.Body)
	if err != nil {
		p.viol("list-objects:unparsable", map[string]any{"after": op})
		return
	}
	seen := map[string]bool{}
	for _, e := range res.Contents {
		o := p.objects[e.Key]
		seen[e.Key] = true
		switch {
		case o != nil:
			if o.adopted || o.taint != "" {
				continue
			}
			if (e.Size != o.size() && !o.reported["body"]) || (trimQ(e.ETag) != o.etag && !o.reported["etag"]) {
				sig := "list-objects:stale-entry"
				if actorKey != "" && e.Key != actorKey {
					sig = "isolation:other-key-changed"
				}
				p.viol(sig, map[string]any{"after": op, "key": e.Key, "listed_size": e.Size, "listed_etag": e.ETag, "want_size": o.size(), "want_etag": o.etag})
				o.reported["body"], o.reported["etag"] = true, true
			}
		case internalName(p, e.Key):
			p.viol("list-objects:internal-name-visible", map[string]any{"after": op, "key": e.Key})
		default:
			p.viol("list-objects:unexpected-key", map[string]any{"after": op, "key": e.Key, "size": e.Size})
		}
	}
	for _, cp := range res.CommonPrefixes {
		if internalName(p, cp.Prefix) {
			p.viol("list-objects:internal-name-visible", map[string]any{"after": op, "common_prefix": cp.Prefix})
		}
	}
	// a listing that names the bookkeeping directory in its prefix shows nothing either
	if len(p.live()) > 0 {
		for _, pre := range []string{".sgwtmp/", ".sgwtmp/multipart/", ".sgwtmp/multipart"} {
			for _, q := range []string{"list-type=2&" + s3c.Q("prefix", pre), s3c.Q("prefix", pre), "list-type=2&" + s3c.Q("prefix", pre, "delimiter", "/")} {
				lr := p.req("list-objects-internal-prefix("+op+")", true, &s3c.Req{Method: "GET", Path: s3c.BucketPath(p.bucket), Query: q})
				if lr.Err != nil {
					return
				}
				if !lr.OK() {
					continue
				}
				if ir, err := s3c.ParseList(lr.Body); err == nil && len(ir.Contents)+len(ir.CommonPrefixes) > 0 && !p.reportedInternal {
					first := ""
					if len(ir.Contents) > 0 {
						first = ir.Contents[0].Key
					} else {
						first = ir.CommonPrefixes[0].Prefix
					}
					p.viol("list-objects:parts-of-uploads-in-progress-listed-under-internal-prefix", map[string]any{"after": op, "query": q, "entries": len(ir.Contents), "common_prefixes": len(ir.CommonPrefixes), "first": first})
					p.reportedInternal = true
				}
			}
		}
		// and a key that has an upload in progress but no object is no object for HEAD either, whatever part is asked for
		for _, u := range p.live() {
			if p.objects[u.key] != nil || len(u.parts) == 0 || p.reportedHeadPart {
				continue
			}
			hr := p.req("head-object-part("+op+")", true, &s3c.Req{Method: "HEAD", Path: s3c.ObjPath(p.bucket, u.key), Query: s3c.Q("partNumber", fmt.Sprint(u.numbers()[0]))})
			if hr.Err != nil {
				return
			}
			if hr.OK() {
				p.viol("head-object:part-of-an-upload-in-progress-answered-as-object", map[string]any{"after": op, "key": u.key, "part": u.numbers()[0], "answer": hr.String(), "etag": hr.Header.Get("Etag"), "content_length": hr.Header.Get("Content-Length")})
				p.reportedHeadPart = true
			}
			break
		}
	}
	for k, o := range p.objects {
		if o != nil && !seen[k] && !o.reported["missing"] {
			sig := "list-objects:missing-key"
			if actorKey != "" && k != actorKey {
				sig = "isolation:other-key-changed"
			}
			p.viol(sig, map[string]any{"after": op, "key": k, "why": "object of the model not listed"})
			o.reported["missing"] = true
		}
	}
}

func (p *prog) opObserve() {
	r := p.r
	p.kinds["observe"] = true
	switch r.Intn(6) {
	case 5:
		// not judged (the statement speaks of listings): is a part readable as an object under its internal name?
		for _, u := range p.live() {
			for _, n := range u.numbers() {
				ikey := fmt.Sprintf(".sgwtmp/multipart/%x/%s/%d", sha256.Sum256([]byte(u.key)), u.id, n)
				p.logf("get internal name of part %d of U%d", n, u.n)
				g := p.req("get-internal", true, &s3c.Req{Method: "GET", Path: s3c.ObjPath(p.bucket, ikey)})
				if g.Err != nil {
					return
				}
				p.result("%s", g)
				if g.OK() {
					p.c.Observe("a part file is readable as an object through GET <bucket>/.sgwtmp/multipart/<sha256(key)>/<uploadId>/<n> (not judged)")
				}
				return
			}
		}
	case 0:
		p.logf("list-objects-v2")
		p.checkListing("observe", "")
		p.c.Distinct(fmt.Sprintf("op|observe|list|live=%d", min(len(p.live()), 3)))
	case 1:
		// delimiter / prefix listings must not expose the bookkeeping directory either
		q := [][]string{{"delimiter", "/"}, {"prefix", ".sgwtmp"}, {"prefix", ".sgwtmp/", "delimiter", "/"}, {"prefix", ".", "delimiter", "/"}, {"start-after", ".s"}}[r.Intn(5)]
		p.logf("list-objects-v2 %v", q)
		resp := p.req("list-objects", true, &s3c.Req{Method: "GET", Path: s3c.BucketPath(p.bucket), Query: "list-type=2&" + s3c.Q(q...)})
		if resp.Err != nil || !resp.OK() {
			return
		}
		res, err := s3c.ParseList(resp.Body)
		if err != nil {
			return
		}
		for _, e := range res.Contents {
			if p.objects[e.Key] == nil {
				sig := "list-objects:unexpected-key"
				if internalName(p, e.Key) {
					sig = "list-objects:internal-name-visible"
				}
				p.viol(sig, map[string]any{"query": q, "key": e.Key})
			}
		}
		for _, cp := range res.CommonPrefixes {
			if internalName(p, cp.Prefix) {
				p.viol("list-objects:internal-name-visible", map[string]any{"query": q, "common_prefix": cp.Prefix})
			}
		}
		p.c.Distinct("op|observe|list-variant|" + strings.Join(q, "="))
	case 2:
		// V1 listing
		p.logf("list-objects-v1")
		resp := p.req("list-objects-v1", true, &s3c.Req{Method: "GET", Path: s3c.BucketPath(p.bucket)})
		if resp.Err != nil || !resp.OK() {
			return
		}
		if res, err := s3c.ParseList(resp.Body); err == nil {
			for _, e := range res.Contents {
				if p.objects[e.Key] == nil {
					sig := "list-objects:unexpected-key"
					if internalName(p, e.Key) {
						sig = "list-objects:internal-name-visible"
					}
					p.viol(sig, map[string]any{"api": "ListObjects", "key": e.Key})
				}
			}
		}
		p.c.Distinct("op|observe|list-v1")
	default:
		key := p.keys[r.Intn(len(p.keys))]
		if r.Intn(2) == 0 {
			key = p.keys[0]
		}
		p.logf("get %s", key)
		p.judgeKey(key, "observe")
		st := "absent"
		if p.objects[key] != nil {
			st = "present"
		}
		p.c.Distinct(fmt.Sprintf("op|observe|get|%s|live-uploads-of-key=%d", st, min(len(p.liveSet(func(u *upload) bool { return u.key == key })), 2)))
	}
}

// unknownPrev: the key held an object of unknown content before (after an already recorded violation);
// whether an extra attribute is a leftover of it cannot be decided.
func unknownPrev(o *object) bool {
	for x := o.prev; x != nil; x = x.prev {
		if x.adopted && x.meta == nil {
			return true
		}
	}
	return false
}

func staleIn(o *object, f func(x *object) bool) bool {
	for x := o.prev; x != nil; x = x.prev {
		if f(x) {
			return true
		}
	}
	return false
}

// judgeKey reads key and compares it with the model. ctx "complete": every aspect gets its own
// signature; other contexts: the key must be exactly as before -> "<ctx>:key-changed".
func (p *prog) judgeKey(key, ctx string) {
	if p.dead {
		return
	}
	want := p.objects[key]
	g := p.req("get("+ctx+")", true, &s3c.Req{Method: "GET", Path: s3c.ObjPath(p.bucket, key)})
	if g.Err != nil {
		return
	}
	type finding struct {
		aspect string
		text   string
	}
	var fs []finding
	add := func(aspect, format string, a ...any) { fs = append(fs, finding{aspect, fmt.Sprintf(format, a...)}) }
	switch {
	case want == nil:
		if g.OK() {
			add("created", "key must be absent, GET answers %s with %d bytes, etag %s", g, len(g.Body), g.Header.Get("Etag"))
		} else if g.Status != 404 {
			p.c.Observe("GET of an absent key answers " + g.String())
		}
	case want.adopted:
		// content unknown after an already recorded violation
	case !g.OK():
		add("unreadable", "GET answers %s, model holds %d bytes", g, want.size())
	default:
		if !want.equalBody(g.Body) {
			add("body", "GET returned %d bytes (md5 %s), model holds %d bytes", len(g.Body), s3c.MD5Hex(g.Body), want.size())
		}
		if got := trimQ(g.Header.Get("Etag")); got != want.etag {
			add("etag", "ETag %s, want %s", got, want.etag)
		}
		// user metadata
		got := map[string]string{}
		for k, v := range g.Header {
			if strings.HasPrefix(strings.ToLower(k), "x-amz-meta-") && len(v) > 0 {
				got[strings.ToLower(k)[len("x-amz-meta-"):]] = v[0]
			}
		}
		if !sameMap(got, want.meta) {
			stale := true
			onlyExtra := true
			for k, v := range want.meta {
				if got[k] != v {
					onlyExtra = false
				}
			}
			for k, v := range want.meta {
				if got[k] != v {
					stale = false
				}
			}
			for k, v := range got {
				if _, ok := want.meta[k]; !ok {
					kk, vv := k, v
					if !staleIn(want, func(x *object) bool { return x.meta[kk] == vv }) {
						stale = false
					}
				}
			}
			if !stale && onlyExtra && unknownPrev(want) {
				p.c.Observe("extra metadata on a key that held an object of unknown content before (not judged)")
			} else if stale {
				add("metadata-stale", "metadata %v, given at initiation %v (extra entries are those of an earlier object of the key)", got, want.meta)
			} else {
				add("metadata", "metadata %v, given at initiation %v", got, want.meta)
			}
		}
		for _, h := range contentNames {
			gv := g.Header.Get(h)
			wv, given := want.hdr[h]
			switch {
			case given && gv != wv:
				add("content-headers", "%s: %q, given at initiation %q", h, gv, wv)
			case !given && gv != "":
				hh := h
				if staleIn(want, func(x *object) bool { v, ok := x.hdr[hh]; return ok && v == gv }) {
					add("content-headers-stale", "%s: %q although none was given (value of an earlier object of the key)", h, gv)
				}
			}
		}
		// tags
		tr := p.req("get-tagging("+ctx+")", true, &s3c.Req{Method: "GET", Path: s3c.ObjPath(p.bucket, key), Query: "tagging="})
		if tr.Err != nil {
			return
		}
		gt := map[string]string{}
		if tr.OK() {
			if m, err := s3c.ParseTagging(tr.Body); err == nil {
				gt = m
			}
		} else if tr.Status != 404 {
			add("tags", "GetObjectTagging answers %s", tr)
		}
		if !sameMap(gt, want.tags) {
			if len(want.tags) == 0 && unknownPrev(want) {
				p.c.Observe("tags on a key that held an object of unknown content before (not judged)")
			} else if len(want.tags) == 0 && staleIn(want, func(x *object) bool { return len(x.tags) > 0 && sameMap(x.tags, gt) }) {
				add("tags-stale", "tags %v although none were given (tags of an earlier object of the key)", gt)
			} else {
				add("tags", "tags %v, given at initiation %v", gt, want.tags)
			}
		}
	}
	var texts []string
	var fresh []finding
	for _, f := range fs {
		if want != nil && want.reported[f.aspect] {
			continue
		}
		fresh = append(fresh, f)
		texts = append(texts, f.text)
	}
	if len(fresh) == 0 {
		return
	}
	if want != nil {
		for _, f := range fresh {
			want.reported[f.aspect] = true
		}
	}
	if ctx == "baseline" {
		return
	}
	if ctx == "complete" {
		for _, f := range fresh {
			sig := "complete:" + f.aspect
			if strings.HasSuffix(f.aspect, "-stale") {
				sig += ":" + p.cfg.store()
			}
			p.viol(sig, map[string]any{"key": key, "difference": f.text})
		}
		return
	}
	if want == nil {
		// remember what is there now to avoid cascades
		p.adopt(key)
	}
	p.viol(ctx+":key-changed", map[string]any{"key": key, "differences": texts})
}
