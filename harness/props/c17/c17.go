// Package c17: account changes take effect immediately and completely.
//
// Lane S: model-based sequential histories of admin create/update/delete with
// judged lookups (signed requests with chosen secrets) right after every
// acknowledgement; role, uid and gid effectiveness probes; ListUsers and the
// account file compared with the model.
// Lane G: gated schedules - a lookup on a cold cache is held between "fetched
// from the store" and "inserted into the cache" while the account is deleted or
// updated; later lookups are judged.
// Lane C: concurrent histories checked with porcupine per access key.
package c17

import (
	"encoding/json"
	"encoding/xml"
	"fmt"
	"math/rand"
	"os"
	"path/filepath"
	"sort"
	"strings"
	"sync"
	"sync/atomic"
	"syscall"
	"time"

	"github.com/anishathalye/porcupine"

	"verif/harness/internal/ev"
	"verif/harness/internal/fx"
	"verif/harness/internal/gate"
	"verif/harness/internal/gw"
	"verif/harness/internal/reg"
	"verif/harness/internal/s3c"
)

func init() { reg.Register("C17", "exploration", Run) }

type acct struct {
	Secret string
	Role   string
	UID    int
	GID    int
}

func createBody(ak string, a acct) []byte {
	return []byte(fmt.Sprintf(`<Account><Access>%s</Access><Secret>%s</Secret><Role>%s</Role><UserID>%d</UserID><GroupID>%d</GroupID></Account>`,
		ak, a.Secret, a.Role, a.UID, a.GID))
}

func updateBody(secret *string, uid, gid *int) []byte {
	var sb strings.Builder
	sb.WriteString("<MutableProps>")
	if secret != nil {
		sb.WriteString("<Secret>" + *secret + "</Secret>")
	}
	if uid != nil {
		sb.WriteString(fmt.Sprintf("<UserID>%d</UserID>", *uid))
	}
	if gid != nil {
		sb.WriteString(fmt.Sprintf("<GroupID>%d</GroupID>", *gid))
	}
	sb.WriteString("</MutableProps>")
	return []byte(sb.String())
}

// lookup: a signed ListBuckets with the given credentials; true = authenticated.
func lookup(cl *s3c.Client, ak, sk string) (accepted bool, resp *s3c.Resp) {
	r := cl.With(ak, sk).Do(&s3c.Req{Method: "GET", Path: "/", FreshConn: false, Watchdog: 30 * time.Second})
	return r.Err == nil && r.Status == 200, r
}

// lookupForms: the same question asked with the other two ways of proving the secret - a presigned URL, and a
// streaming upload whose every chunk is signed with a key derived from the secret. ok[form] = accepted.
func lookupForms(cl *s3c.Client, ak, sk string) (ok map[string]bool, resps map[string]*s3c.Resp) {
	u := cl.With(ak, sk)
	ok, resps = map[string]bool{}, map[string]*s3c.Resp{}
	p := u.Do(&s3c.Req{Method: "GET", Path: "/", Presign: true})
	ok["presigned"], resps["presigned"] = p.Err == nil && p.Status == 200, p
	body := []byte(strings.Repeat("chunk-signed probe ", 700))
	ch := u.Do(&s3c.Req{Method: "PUT", Path: s3c.ObjPath(openBucket, "form-probe-"+ak), Body: body, Stream: &s3c.Stream{Mode: s3c.StreamSigned, ChunkSizes: []int{4096}}})
	ok["chunk-signed-upload"], resps["chunk-signed-upload"] = ch.OK(), ch
	return
}

// crossedChunks: the request is signed with the current secret, the chunks with another one (a revoked secret): the
// chunk signatures do not prove the current secret, the upload must be refused.
func crossedChunks(cl *s3c.Client, ak, sk, chunkSecret string) *s3c.Resp {
	body := []byte(strings.Repeat("chunks signed with another secret ", 500))
	st := &s3c.Stream{Mode: s3c.StreamSigned, ChunkSizes: []int{4096}}
	rq := &s3c.Req{Method: "PUT", Path: s3c.ObjPath(openBucket, "crossed-probe-"+ak), Body: body, Stream: st}
	u := cl.With(ak, sk)
	rq.Tamper = func(b *s3c.Built) {
		amz := b.Header.Get("X-Amz-Date")
		day := amz[:8]
		b.Body = st.Encode(body, s3c.SigningKey(chunkSecret, day, u.Region, "s3"), amz, day+"/"+u.Region+"/s3/aws4_request", b.Sig)
	}
	return u.Do(rq)
}

type listUsers struct {
	Accounts []struct {
		Access  string
		Secret  string
		Role    string
		UserID  int
		GroupID int
	}
}

type world struct {
	c      *ev.Ctx
	env    *fx.Env
	root   *s3c.Client
	seq    int
	broken bool // a lookup went unanswered: stop the history
}

func (w *world) secret() string {
	w.seq++
	return fmt.Sprintf("sec%06dxyz", w.seq)
}

const openBucket = "open-bucket"

// setupOpenBucket creates a bucket every account may write to (policy with principal "*").
func (w *world) setupOpenBucket() error {
	if r := w.root.CreateBucket(openBucket); !r.OK() {
		return fmt.Errorf("create bucket: %s", r)
	}
	pol := fmt.Sprintf(`{"Statement":[{"Effect":"Allow","Principal":"*","Action":"s3:*","Resource":["arn:aws:s3:::%s","arn:aws:s3:::%s/*"]}]}`, openBucket, openBucket)
	if r := w.root.Sub("PUT", openBucket, "", "policy=", []byte(pol)); !r.OK() {
		return fmt.Errorf("put policy: %s %s", r, r.Body)
	}
	return nil
}

// judgeAccount checks every observable attribute of an account against the model right now.
func (w *world) judgeAccount(id, when, ak string, a *acct, oldSecrets []string) {
	c := w.c
	cl := w.root
	det := func(extra map[string]any) map[string]any {
		m := map[string]any{"when": when, "access": ak, "model": a}
		for k, v := range extra {
			m[k] = v
		}
		return m
	}
	if a == nil {
		for _, s := range oldSecrets {
			if ok, r := lookup(cl, ak, s); ok {
				c.Violation(when+":deleted-or-absent-account-accepted", id, det(map[string]any{"secret": s, "resp": r.String()}))
			} else if r.Err != nil {
				c.Inconclusive("transport error in lookup")
				w.broken = true
				return
			}
		}
		return
	}
	ok, r := lookup(cl, ak, a.Secret)
	if r.Err != nil {
		c.Inconclusive("transport error in lookup")
		w.broken = true
		return
	}
	if !ok {
		c.Violation(when+":current-secret-refused", id, det(map[string]any{"resp": r.String()}))
		return
	}
	forms, fr := lookupForms(cl, ak, a.Secret)
	for f, ok := range forms {
		if fr[f].Err != nil {
			c.Inconclusive("transport error in lookup (" + f + ")")
			return
		}
		if !ok {
			c.Violation(when+":current-secret-refused:"+f, id, det(map[string]any{"form": f, "resp": fr[f].String(), "code": fr[f].ErrCode()}))
		}
	}
	for _, s := range oldSecrets {
		if s == a.Secret {
			continue
		}
		if ok, r := lookup(cl, ak, s); ok {
			c.Violation(when+":old-secret-accepted", id, det(map[string]any{"secret": s, "resp": r.String()}))
		}
		of, or := lookupForms(cl, ak, s)
		for f, ok := range of {
			if ok {
				c.Violation(when+":old-secret-accepted:"+f, id, det(map[string]any{"form": f, "secret": s, "resp": or[f].String()}))
			}
		}
		if r := crossedChunks(cl, ak, a.Secret, s); r.OK() {
			c.Violation(when+":old-secret-accepted:chunk-signatures", id, det(map[string]any{"chunks_signed_with": s, "resp": r.String()}))
		}
	}
	// role: admin API access iff admin
	ur := cl.With(ak, a.Secret).Admin("/list-users", "", nil)
	if (ur.Status == 200) != (a.Role == "admin") {
		c.Violation(when+":role-not-effective", id, det(map[string]any{"list_users_status": ur.String()}))
	}
	// uid/gid: ownership of a file created by the account
	key := fmt.Sprintf("probe-%s-%d", ak, time.Now().UnixNano())
	pr := cl.With(ak, a.Secret).PutObject(openBucket, key, []byte("x"))
	if !pr.OK() {
		c.Observe("probe put refused: " + pr.String())
		return
	}
	var st syscall.Stat_t
	if err := syscall.Stat(filepath.Join(w.env.Store.Root, openBucket, key), &st); err != nil {
		c.Inconclusive("stat probe: " + err.Error())
		return
	}
	wantUID, wantGID := a.UID, a.GID
	if int(st.Uid) != wantUID || int(st.Gid) != wantGID {
		c.Violation(when+":uid-gid-not-effective", id, det(map[string]any{"file_uid": st.Uid, "file_gid": st.Gid}))
	}
	cl.DeleteObject(openBucket, key)
}

func (w *world) judgeStore(id, when string, model map[string]*acct) {
	c := w.c
	r := w.root.Admin("/list-users", "", nil)
	if !r.OK() {
		c.Violation(when+":list-users-fails", id, map[string]any{"resp": r.String()})
		return
	}
	var lu listUsers
	if err := xml.Unmarshal(r.Body, &lu); err != nil {
		c.Violation(when+":list-users-malformed", id, map[string]any{"body": string(r.Body)})
		return
	}
	got := map[string]acct{}
	for _, a := range lu.Accounts {
		got[a.Access] = acct{a.Secret, a.Role, a.UserID, a.GroupID}
	}
	for ak, a := range model {
		g, ok := got[ak]
		if a == nil {
			if ok {
				c.Violation(when+":list-users-shows-deleted-account", id, map[string]any{"access": ak})
			}
			continue
		}
		if !ok {
			c.Violation(when+":list-users-misses-account", id, map[string]any{"access": ak})
		} else if g != *a {
			c.Violation(when+":list-users-wrong-attributes", id, map[string]any{"access": ak, "got": g, "model": a})
		}
	}
	// the store file must be valid JSON at a quiescent point
	b, err := os.ReadFile(filepath.Join(w.env.Store.IAMDir, "users.json"))
	if err != nil {
		c.Violation(when+":account-file-missing", id, map[string]any{"err": err.Error()})
		return
	}
	var conf struct {
		AccessAccounts map[string]json.RawMessage `json:"accessAccounts"`
	}
	if err := json.Unmarshal(b, &conf); err != nil {
		c.Violation(when+":account-file-corrupt", id, map[string]any{"err": err.Error(), "bytes": string(b)})
	}
}

// ---- lane S -------------------------------------------------------------------

// cacheCfg: "default" (TTL 120 s), "ttl1" (entries expire after 1 s and are pruned every second; the history waits
// for expiry a few times), "disabled" (--iam-cache-disable): the documented cache settings; "admin-port": the admin API
// on a separate listener.
func laneSeq(c *ev.Ctx, id string, r *rand.Rand, steps int, cacheCfg string) {
	cfg := gw.Config{Chown: true}
	switch cacheCfg {
	case "ttl1":
		cfg.Env = []string{"VGW_IAM_CACHE_TTL=1", "VGW_IAM_CACHE_PRUNE=1"}
	case "disabled":
		cfg.Env = []string{"VGW_IAM_CACHE_DISABLE=true"}
	case "admin-port":
		// the admin API on a listener of its own (--admin-port); account changes go there, S3 requests to the S3 port
		cfg.AdminPort = true
	}
	waits := 0
	env, err := fx.New("c17s", cfg, 1)
	if err != nil {
		c.Inconclusive("gateway start: " + err.Error())
		return
	}
	defer env.Close()
	w := &world{c: c, env: env, root: c17Client(env)}
	if err := w.setupOpenBucket(); err != nil {
		c.Inconclusive(err.Error())
		return
	}
	keys := []string{"alice", "bob", "carol"}
	model := map[string]*acct{}
	olds := map[string][]string{}
	roles := []string{"user", "userplus", "admin"}
	shape := []string{}
	// (a gateway that stops answering lookups ends the history: every further step would wait for the watchdog)
	for n := 0; n < steps && !w.broken; n++ {
		ak := keys[r.Intn(len(keys))]
		cur := model[ak]
		x := r.Intn(10)
		if cacheCfg == "ttl1" && waits < 3 && r.Intn(8) == 0 {
			// let every cache entry expire (and the pruner run); what the store says must still be in force
			waits++
			time.Sleep(1300 * time.Millisecond)
			for _, k := range keys {
				w.judgeAccount(id, "after-cache-expiry", k, model[k], olds[k])
			}
			shape = append(shape, "wait-for-expiry")
			c.Distinct("S|after-cache-expiry")
		}
		switch {
		case x < 3: // create
			a := acct{w.secret(), roles[r.Intn(3)], 1000 + r.Intn(50000), 1000 + r.Intn(50000)}
			resp := w.root.Admin("/create-user", "", createBody(ak, a))
			c.Eval(1)
			if cur == nil {
				if resp.Status != 201 {
					c.Observe("create of absent account refused: " + resp.String())
					break
				}
				model[ak] = &a
				olds[ak] = append(olds[ak], a.Secret)
				shape = append(shape, "create")
				w.judgeAccount(id, "after-create", ak, model[ak], olds[ak])
				c.Distinct("S|after-create|" + a.Role)
			} else {
				if resp.OK() {
					c.Violation("create-on-existing:accepted", id, map[string]any{"access": ak, "resp": resp.String()})
					// follow the gateway so that later steps stay meaningful
					model[ak] = &a
					olds[ak] = append(olds[ak], a.Secret)
				}
				shape = append(shape, "create-existing")
				w.judgeAccount(id, "after-refused-create", ak, model[ak], append(olds[ak], a.Secret))
				c.Distinct("S|after-refused-create")
			}
		case x < 6: // update
			var sec *string
			var uid, gid *int
			kind := r.Intn(6)
			switch kind {
			case 0:
				s := w.secret()
				sec = &s
			case 1:
				u := 1000 + r.Intn(50000)
				uid = &u
			case 2:
				g := 1000 + r.Intn(50000)
				gid = &g
			case 3: // one call changes the secret together with the ids
				s := w.secret()
				sec = &s
				u, g := 1000+r.Intn(50000), 1000+r.Intn(50000)
				uid, gid = &u, &g
			case 4:
				s := w.secret()
				sec = &s
				u := 1000 + r.Intn(50000)
				uid = &u
			default:
				u, g := 1000+r.Intn(50000), 1000+r.Intn(50000)
				uid, gid = &u, &g
			}
			resp := w.root.Admin("/update-user", s3c.Q("access", ak), updateBody(sec, uid, gid))
			c.Eval(1)
			if cur == nil {
				if resp.OK() {
					c.Violation("update-of-absent-account:accepted", id, map[string]any{"access": ak})
				}
				w.judgeAccount(id, "after-refused-update", ak, nil, olds[ak])
				break
			}
			if !resp.OK() {
				c.Observe("update refused: " + resp.String())
				break
			}
			if sec != nil {
				cur.Secret = *sec
				olds[ak] = append(olds[ak], *sec)
			}
			if uid != nil {
				cur.UID = *uid
			}
			if gid != nil {
				cur.GID = *gid
			}
			k := []string{"secret", "uid", "gid", "secret+uid+gid", "secret+uid", "uid+gid"}[kind]
			shape = append(shape, "update-"+k)
			w.judgeAccount(id, "after-update-"+k, ak, cur, olds[ak])
			c.Distinct("S|after-update-" + k)
		case x < 8: // delete
			resp := w.root.Admin("/delete-user", s3c.Q("access", ak), nil)
			c.Eval(1)
			if !resp.OK() {
				c.Observe("delete refused: " + resp.String())
				break
			}
			model[ak] = nil
			shape = append(shape, "delete")
			w.judgeAccount(id, "after-delete", ak, nil, olds[ak])
			if cur != nil {
				c.Distinct("S|after-delete")
			}
		default: // plain lookups (also warm the cache)
			c.Eval(1)
			w.judgeAccount(id, "steady", ak, cur, olds[ak])
			shape = append(shape, "lookup")
		}
		if i, cr := env.Dead(); cr != nil {
			c.Violation("gateway-died:"+cr.TopFrame, id, map[string]any{"gateway": i, "crash": cr.Message})
			return
		}
		if n%7 == 6 {
			w.judgeStore(id, "quiescent", model)
		}
	}
	w.judgeStore(id, "final", model)
	// restart: everything must survive and still be judged the same
	if err := env.Restart(0); err == nil {
		w.root = c17Client(env)
		for _, ak := range keys {
			w.judgeAccount(id, "after-restart", ak, model[ak], olds[ak])
		}
		w.judgeStore(id, "after-restart", model)
		c.Distinct("S|after-restart")
	}
	c.Add("sequential_histories", 1)
	if strings.HasSuffix(id, "/0") {
		c.Sample(map[string]any{"lane": "sequential", "steps": shape})
	}
}

// ---- lane G -------------------------------------------------------------------

func laneGate(c *ev.Ctx, id, concurrentOp, probe string) {
	ctl, err := gate.New(gw.Scratch())
	if err != nil {
		c.Inconclusive(err.Error())
		return
	}
	defer ctl.Close()
	env, err := fx.New("c17g", gw.Config{Chown: true, Env: ctl.Env("iamcache.afterFetch")}, 1)
	if err != nil {
		c.Inconclusive("gateway start: " + err.Error())
		return
	}
	defer env.Close()
	w := &world{c: c, env: env, root: c17Client(env)}
	if err := w.setupOpenBucket(); err != nil {
		c.Inconclusive(err.Error())
		return
	}
	ak := "dave"
	a := acct{w.secret(), "user", 2000, 3000}
	if r := w.root.Admin("/create-user", "", createBody(ak, a)); r.Status != 201 {
		c.Inconclusive("create: " + r.String())
		return
	}
	// cold cache: restart the gateway
	if err := env.Restart(0); err != nil {
		c.Inconclusive("restart: " + err.Error())
		return
	}
	w.root = c17Client(env)
	pol, _ := gate.HoldNth(1)
	ctl.SetPolicy(pol)
	ch := make(chan *s3c.Resp, 1)
	go func() {
		_, r := lookup(c17Client(env), ak, a.Secret)
		ch <- r
	}()
	h := ctl.WaitHeld(10 * time.Second)
	if h == nil {
		ctl.SetPolicy(nil)
		<-ch
		c.Inconclusive("lookup never reached iamcache.afterFetch (cache not cold?)")
		return
	}
	ctl.SetPolicy(nil)
	// concurrent admin mutation issued while the lookup is in flight. If the code serialises it behind
	// the lookup it cannot finish before the release: give it a moment, then release and let it finish.
	newSecret := w.secret()
	arCh := make(chan *s3c.Resp, 1)
	go func() {
		switch concurrentOp {
		case "delete":
			arCh <- w.root.Do(&s3c.Req{Method: "PATCH", Path: "/delete-user", Query: s3c.Q("access", ak), FreshConn: true})
		default:
			arCh <- w.root.Do(&s3c.Req{Method: "PATCH", Path: "/update-user", Query: s3c.Q("access", ak), Body: updateBody(&newSecret, nil, nil), FreshConn: true})
		}
	}()
	var ar *s3c.Resp
	order := "admin-op-completed-while-lookup-held"
	select {
	case ar = <-arCh:
	case <-time.After(1500 * time.Millisecond):
		order = "admin-op-waited-for-lookup"
	}
	h.Release()
	// Both requests must now complete. If neither does while the gateway keeps answering a request that needs no
	// account lookup, the two requests block each other for good: the account change is never acknowledged and
	// every later lookup of an uncached account would hang behind it. Confirmed twice, 30 s apart, with a live
	// probe in between, before it is called a deadlock (a loaded machine alone never produces that picture).
	var pr *s3c.Resp
	stuck := 0
	for pr == nil || ar == nil {
		select {
		case r := <-ch:
			pr = r
		case r := <-arCh:
			if ar == nil {
				ar = r
			}
		case <-time.After(30 * time.Second):
			probe := w.root.Do(&s3c.Req{Method: "GET", Path: "/", FreshConn: true, Watchdog: 20 * time.Second})
			if probe.Err != nil {
				c.Inconclusive("gateway unresponsive during gated schedule (probe failed too)")
				env.GWs[0].Kill()
				return
			}
			stuck++
			if stuck >= 2 {
				c.Eval(1)
				c.Violation("gate:lookup-miss|"+concurrentOp+":lookup-and-admin-change-block-each-other-forever", id, map[string]any{
					"schedule": "lookup(cache miss) held at iamcache.afterFetch | " + concurrentOp + " issued | release",
					"order":    order, "lookup_returned": pr != nil, "admin_op_returned": ar != nil,
					"probe_without_account_lookup": probe.String(), "waited_s": 60})
				env.GWs[0].Kill()
				return
			}
		}
	}
	c.Eval(1)
	if !ar.OK() {
		c.Inconclusive("admin op not acknowledged: " + ar.String())
		return
	}
	det := map[string]any{"schedule": "lookup(cache miss) held at iamcache.afterFetch | " + concurrentOp + " issued | release", "order": order, "in_flight_lookup": pr.String()}
	// lookups that start after the acknowledgement
	switch concurrentOp {
	case "delete":
		if ok, r := lookup(w.root, ak, a.Secret); ok {
			det["later_lookup"] = r.String()
			c.Violation("gate:lookup-miss|delete:deleted-account-accepted", id, det)
		}
	case "update-secret":
		if ok, r := lookup(w.root, ak, a.Secret); ok {
			det["later_lookup_old_secret"] = r.String()
			c.Violation("gate:lookup-miss|update-secret:old-secret-accepted", id, det)
		}
		if ok, r := lookup(w.root, ak, newSecret); !ok {
			det["later_lookup_new_secret"] = r.String()
			c.Violation("gate:lookup-miss|update-secret:new-secret-refused", id, det)
		}
	}
	c.Distinct("G|lookup-miss@iamcache.afterFetch|" + concurrentOp + "|" + order)
	c.Add("gated_schedules", 1)
	c.Sample(det)
}

// ---- lane C -------------------------------------------------------------------

type cIn struct {
	Kind   string // create update delete lookup
	Secret string
}
type cOut struct {
	OK bool
}

var acctModel = porcupine.Model{
	Init: func() interface{} { return "" },
	Step: func(state, input, output interface{}) (bool, interface{}) {
		st := state.(string)
		in := input.(cIn)
		out := output.(cOut)
		switch in.Kind {
		case "create":
			if st == "" {
				return out.OK, in.Secret
			}
			return !out.OK, st
		case "update":
			if st == "" {
				return !out.OK, st
			}
			return out.OK, in.Secret
		case "delete":
			return out.OK, ""
		default:
			return out.OK == (st != "" && st == in.Secret), st
		}
	},
	Equal:             func(a, b interface{}) bool { return a.(string) == b.(string) },
	DescribeOperation: func(in, out interface{}) string { return fmt.Sprintf("%+v -> %+v", in, out) },
}

type hop struct {
	Who  string `json:"who"`
	In   cIn    `json:"in"`
	Out  cOut   `json:"out"`
	Call int64  `json:"call"`
	Ret  int64  `json:"ret"`
}

func laneConc(c *ev.Ctx, id string, seed int64, race bool) {
	env, err := fx.New("c17c", gw.Config{Chown: true, Race: race, Env: []string{fmt.Sprintf("VERIF_HOOK_RAND=%d:200:2", seed)}}, 1)
	if err != nil {
		c.Inconclusive("gateway start: " + err.Error())
		return
	}
	defer env.Close()
	root := c17Client(env)
	keys := []string{"k1", "k2", "k3", "k4"}
	hist := map[string][]hop{}
	var mu sync.Mutex
	t0 := time.Now()
	now := func() int64 { return int64(time.Since(t0)) }
	var secSeq int
	secret := func() string {
		mu.Lock()
		defer mu.Unlock()
		secSeq++
		return fmt.Sprintf("s%05dabcdef", secSeq)
	}
	issued := map[string][]string{}
	unknown := false
	// a request without an answer within 25 s stops the whole workload (a wedged account path would otherwise cost
	// one watchdog per remaining request)
	var wedged atomic.Bool
	var wg sync.WaitGroup
	for ci := 0; ci < 8; ci++ {
		wg.Add(1)
		go func(ci int) {
			defer wg.Done()
			r := rand.New(rand.NewSource(seed*977 + int64(ci)))
			cl := c17Client(env)
			cl.DefaultWatchdog = 25 * time.Second
			for n := 0; n < 14 && !wedged.Load(); n++ {
				ak := keys[r.Intn(len(keys))]
				var h hop
				h.Who = fmt.Sprintf("c%d", ci)
				var resp *s3c.Resp
				switch x := r.Intn(10); {
				case x < 2:
					s := secret()
					h.In = cIn{"create", s}
					mu.Lock()
					issued[ak] = append(issued[ak], s)
					mu.Unlock()
					h.Call = now()
					resp = cl.Admin("/create-user", "", createBody(ak, acct{s, "user", 1000 + ci, 2000 + ci}))
					h.Ret = now()
					h.Out = cOut{resp.Status == 201}
				case x < 4:
					s := secret()
					h.In = cIn{"update", s}
					mu.Lock()
					issued[ak] = append(issued[ak], s)
					mu.Unlock()
					h.Call = now()
					resp = cl.Admin("/update-user", s3c.Q("access", ak), updateBody(&s, nil, nil))
					h.Ret = now()
					h.Out = cOut{resp.OK()}
				case x < 5:
					h.In = cIn{"delete", ""}
					h.Call = now()
					resp = cl.Admin("/delete-user", s3c.Q("access", ak), nil)
					h.Ret = now()
					h.Out = cOut{resp.OK()}
				default:
					mu.Lock()
					ss := issued[ak]
					mu.Unlock()
					if len(ss) == 0 {
						continue
					}
					s := ss[len(ss)-1-r.Intn(min(2, len(ss)))]
					h.In = cIn{"lookup", s}
					h.Call = now()
					var ok bool
					ok, resp = lookup(cl, ak, s)
					h.Ret = now()
					h.Out = cOut{ok}
				}
				if resp.Err != nil && strings.Contains(resp.Err.Error(), "timeout") {
					wedged.Store(true)
				}
				mu.Lock()
				if resp.Err != nil || resp.Status >= 500 {
					unknown = true
				}
				hist[ak] = append(hist[ak], h)
				mu.Unlock()
			}
		}(ci)
	}
	wg.Wait()
	if i, cr := env.Dead(); cr != nil {
		c.Violation("conc:gateway-died:"+cr.TopFrame, id, map[string]any{"gateway": i, "crash": cr.Message})
		return
	}
	if wedged.Load() {
		// account requests stopped being answered. Is the gateway as a whole stuck (machine load, inconclusive)
		// or only the account path, while a request that needs no account lookup is still served?
		pc := c17Client(env)
		pc.DefaultWatchdog = 25 * time.Second
		probe := pc.Do(&s3c.Req{Method: "GET", Path: "/", FreshConn: true})
		again := pc.Admin("/list-users", "", nil)
		c.Eval(1)
		if probe.Err == nil && again.Err != nil {
			c.Violation("conc:account-requests-never-answered", id, map[string]any{"probe_without_account_lookup": probe.String(),
				"admin_list_users": again.String(), "explain": "admin mutations / lookups got no answer within 25 s and still get none, while a root request is served: the account path is wedged"})
		} else {
			c.Inconclusive("a request timed out under concurrency but the gateway answers again")
		}
		return
	}
	// final reads: list-users gives the final secret of every key
	lr := root.Admin("/list-users", "", nil)
	var lu listUsers
	if !lr.OK() || xml.Unmarshal(lr.Body, &lu) != nil {
		c.Violation("conc:list-users-fails-after-concurrent-changes", id, map[string]any{"resp": lr.String()})
		return
	}
	final := map[string]string{}
	for _, a := range lu.Accounts {
		final[a.Access] = a.Secret
	}
	b, err := os.ReadFile(filepath.Join(env.Store.IAMDir, "users.json"))
	var js map[string]any
	if err != nil || json.Unmarshal(b, &js) != nil {
		c.Violation("conc:account-file-corrupt", id, map[string]any{"err": fmt.Sprint(err), "bytes": string(b)})
	}
	total := 0
	for _, h := range hist {
		total += len(h)
	}
	c.Eval(total)
	c.Add("concurrent_histories", 1)
	c.Add("concurrent_operations", total)
	if race {
		for _, g := range env.GWs {
			g.Stop()
			for _, rep := range g.RaceReports() {
				sig, inV := gw.RaceSig(rep)
				if inV {
					if len(rep) > 3000 {
						rep = rep[:3000]
					}
					c.Violation("race:"+sig, id, map[string]any{"report": rep})
				} else {
					c.Observe("race report entirely inside dependencies: " + sig)
				}
			}
		}
	}
	if unknown {
		c.Inconclusive("concurrent history with unknown outcomes (5xx or transport error)")
		return
	}
	overl := 0
	var aks []string
	for ak := range hist {
		aks = append(aks, ak)
	}
	sort.Strings(aks)
	for _, ak := range aks {
		h := hist[ak]
		var ops []porcupine.Operation
		end := now() + 1
		for i, o := range h {
			ops = append(ops, porcupine.Operation{ClientId: i, Input: o.In, Output: o.Out, Call: o.Call, Return: o.Ret})
			for j := i + 1; j < len(h); j++ {
				if o.Call <= h[j].Ret && h[j].Call <= o.Ret {
					overl++
				}
			}
		}
		// the final state as lookups after everything: the listed secret is accepted, the account exists iff listed
		if s, ok := final[ak]; ok {
			ops = append(ops, porcupine.Operation{ClientId: len(h), Input: cIn{"lookup", s}, Output: cOut{true}, Call: end, Return: end + 1})
		} else if len(h) > 0 {
			for _, o := range h {
				if o.In.Secret != "" {
					ops = append(ops, porcupine.Operation{ClientId: len(h), Input: cIn{"lookup", o.In.Secret}, Output: cOut{false}, Call: end, Return: end + 1})
					break
				}
			}
		}
		switch porcupine.CheckOperationsTimeout(acctModel, ops, 60*time.Second) {
		case porcupine.Ok:
		case porcupine.Unknown:
			c.Inconclusive("porcupine timeout")
		default:
			// classify: a lookup accepted with a secret that is not current / refused with the current one
			an := "nonlinearizable"
			c.Violation("conc:"+an, id, map[string]any{"access": ak, "history": h, "final_listed_secret": final[ak]})
		}
	}
	if overl >= 2 {
		c.Distinct(fmt.Sprintf("C|race=%v|seed=%d", race, seed))
	}
}

func Run(c *ev.Ctx) int {
	c.Assume("one gateway process (the property's quantifier: changes through one gateway); internal IAM store; cache as shipped (TTL 120 s, far longer than any case, so expiry never rescues a stale entry) and, in two of five sequential histories, with TTL/prune interval 1 s (with waits for expiry) or disabled")
	c.Assume("harness and gateway run as root so that --chuid/--chgid chown works; lookups are signed ListBuckets requests")
	var wg sync.WaitGroup
	sem := make(chan struct{}, 8)
	run := func(f func()) {
		wg.Add(1)
		sem <- struct{}{}
		go func() {
			defer wg.Done()
			defer func() { <-sem }()
			f()
		}()
	}
	nSeq := c.Pick(10, 600)
	rs := c.Rng("seq")
	for i := 0; i < nSeq; i++ {
		id := fmt.Sprintf("S/%d", i)
		seed := rs.Int63()
		steps := 20 + int(seed%40)
		if !c.Want(id) {
			continue
		}
		cc := []string{"default", "admin-port", "default", "ttl1", "disabled"}[i%5]
		run(func() { laneSeq(c, id, rand.New(rand.NewSource(seed)), steps, cc) })
	}
	for i, op := range []string{"delete", "update-secret"} {
		reps := c.Pick(2, 12)
		for k := 0; k < reps; k++ {
			id := fmt.Sprintf("G/%d/%d", i, k)
			if !c.Want(id) {
				continue
			}
			op := op
			run(func() { laneGate(c, id, op, "") })
		}
	}
	for _, first := range []string{"create", "update-secret", "delete"} {
		for _, second := range []string{"create", "update-secret", "delete"} {
			id := "G2/" + first + "/" + second
			if first == second && first != "update-secret" {
				continue
			}
			first, second := first, second
			run(func() { laneGate2(c, id, first, second) })
		}
	}
	run(func() { laneDirectCache(c, c.Rng("direct").Int63()) })
	for _, point := range []string{"iam.afterRemove", "iam.afterBackup", "iam.beforeRename"} {
		for _, op := range []string{"create", "update", "delete"} {
			point, op := point, op
			run(func() { laneKilled(c, "K/"+point+"/"+op, point, op) })
		}
	}
	nConc := c.Pick(10, 400)
	rc := c.Rng("conc")
	for i := 0; i < nConc; i++ {
		id := fmt.Sprintf("C/%d", i)
		seed := rc.Int63n(1 << 30)
		if !c.Want(id) {
			continue
		}
		run(func() { laneConc(c, id, seed, false) })
	}
	wg.Wait()
	if c.Thorough() {
		for i := 0; i < 8; i++ {
			id := fmt.Sprintf("C-race/%d", i)
			if c.Want(id) {
				laneConc(c, id, rc.Int63n(1<<30), true)
			}
		}
	}
	return c.Finish("lane S: model-based sequential histories (20-60 steps over 3 access keys: create/update secret|uid|gid/delete/lookup) with lookups (current + every old secret), role probe, uid/gid probe and list-users/users.json comparison right after every acknowledged admin call and after a restart; lane G: cache-miss lookup held at iamcache.afterFetch while delete / update-secret is acknowledged; lane C: 8 concurrent clients on 4 access keys, porcupine per key; distinct = (lane, judged situation) classes and concurrent histories with >= 2 overlapping operations", 8)
}
