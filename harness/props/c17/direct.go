package c17

import (
	"fmt"
	"os"
	"sync"
	"sync/atomic"
	"time"

	"github.com/versity/versitygw/auth"

	"verif/harness/internal/ev"
	"verif/harness/internal/fx"
)

// Lane D (direct): "regardless of concurrent traffic using that account". The real internal IAM store behind the real
// cache (auth.NewInternal + auth.NewCache with the gateway's default 120 s / 1 h settings) is called in-process: eight
// goroutines look one account up without pause - far more lookups per second than HTTP clients manage - while
// UpdateUserAccount, DeleteUserAccount and CreateAccount of that account are called and return. The lookups go on;
// once a change has returned, every lookup that STARTS afterwards must see it (sampled 50 times right away and once
// more after the readers stopped).
func laneDirectCache(c *ev.Ctx, seed int64) {
	if !c.Want("D/direct-cache") {
		return
	}
	dir := fx.UniqueDir("c17-direct-iam")
	defer os.RemoveAll(dir)
	svc, err := auth.NewInternal(auth.Account{Access: "rootkey", Secret: "rootsecret", Role: auth.RoleAdmin}, dir)
	if err != nil {
		c.Inconclusive("lane D: NewInternal: " + err.Error())
		return
	}
	cache := auth.NewCache(svc, 120*time.Second, time.Hour)
	defer cache.Shutdown()
	rounds := c.Pick(150, 1500)
	const ak = "busy"
	secret := func(i int) string { return fmt.Sprintf("secret-%06d", i) }
	if err := cache.CreateAccount(auth.Account{Access: ak, Secret: secret(0), Role: auth.RoleUser}); err != nil {
		c.Inconclusive("lane D: create: " + err.Error())
		return
	}
	var stop atomic.Bool
	var lookups atomic.Int64
	var wg sync.WaitGroup
	for g := 0; g < 8; g++ {
		wg.Add(1)
		go func() {
			defer wg.Done()
			for !stop.Load() {
				cache.GetUserAccount(ak)
				lookups.Add(1)
			}
		}()
	}
	defer func() { stop.Store(true); wg.Wait() }()
	exists := true
	cur := 0
	viol := 0
	check := func(round int, what string, wantExists bool, wantSecret string) {
		for k := 0; k < 50 && viol < 5; k++ {
			a, err := cache.GetUserAccount(ak)
			c.Eval(1)
			switch {
			case wantExists && err != nil:
				viol++
				c.Violation("direct-cache:"+what+":account-not-found-after-acknowledged-change", "D/direct-cache", map[string]any{"round": round, "error": err.Error(), "lookups_so_far": lookups.Load()})
				return
			case wantExists && a.Secret != wantSecret:
				viol++
				c.Violation("direct-cache:"+what+":old-secret-served-after-acknowledged-change", "D/direct-cache", map[string]any{"round": round, "secret_served": a.Secret, "secret_set": wantSecret, "lookups_so_far": lookups.Load()})
				return
			case !wantExists && err == nil:
				viol++
				c.Violation("direct-cache:"+what+":deleted-account-served-after-acknowledged-delete", "D/direct-cache", map[string]any{"round": round, "secret_served": a.Secret, "lookups_so_far": lookups.Load()})
				return
			}
		}
	}
	for i := 1; i <= rounds && viol < 5; i++ {
		switch {
		case !exists:
			cur = i
			if err := cache.CreateAccount(auth.Account{Access: ak, Secret: secret(cur), Role: auth.RoleUser}); err != nil {
				c.Inconclusive("lane D: re-create: " + err.Error())
				return
			}
			exists = true
			check(i, "create", true, secret(cur))
			c.Distinct("D|create-under-lookups")
		case i%3 == 0:
			if err := cache.DeleteUserAccount(ak); err != nil {
				c.Inconclusive("lane D: delete: " + err.Error())
				return
			}
			exists = false
			check(i, "delete", false, "")
			c.Distinct("D|delete-under-lookups")
		default:
			cur = i
			s := secret(cur)
			if err := cache.UpdateUserAccount(ak, auth.MutableProps{Secret: &s}); err != nil {
				c.Inconclusive("lane D: update: " + err.Error())
				return
			}
			check(i, "update", true, s)
			c.Distinct("D|update-under-lookups")
		}
	}
	stop.Store(true)
	wg.Wait()
	if viol == 0 {
		if exists {
			check(rounds+1, "final", true, secret(cur))
		} else {
			check(rounds+1, "final", false, "")
		}
	}
	c.Add("direct_cache_lookups", int(lookups.Load()))
	c.Add("direct_cache_changes", rounds)
}
