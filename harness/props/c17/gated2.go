package c17

import (
	"encoding/xml"
	"fmt"
	"time"

	"verif/harness/internal/ev"
	"verif/harness/internal/fx"
	"verif/harness/internal/gate"
	"verif/harness/internal/gw"
	"verif/harness/internal/s3c"
)

// Lane G2: "every set of concurrent admin mutations". One admin change of an access key (create / update-secret /
// delete) is paused between its store change and its cache change; a second admin change of the SAME key is sent
// meanwhile. However the gateway orders the two (the second may have to wait for the first), once both are
// acknowledged the account must act exactly as the store describes it: what list-users reports is what lookups do.
func laneGate2(c *ev.Ctx, id, first, second string) {
	if !c.Want(id) {
		return
	}
	points := map[string]string{"create": "iamcache.afterCreateStore", "update-secret": "iamcache.afterUpdateStore", "delete": "iamcache.afterDeleteStore"}
	ctl, err := gate.New(gw.Scratch())
	if err != nil {
		c.Inconclusive(err.Error())
		return
	}
	defer ctl.Close()
	env, err := fx.New("c17h", gw.Config{Chown: true, Env: ctl.Env(points[first])}, 1)
	if err != nil {
		c.Inconclusive("gateway start: " + err.Error())
		return
	}
	defer env.Close()
	w := &world{c: c, env: env, root: c17Client(env)}
	if err := w.setupOpenBucket(); err != nil {
		c.Inconclusive(err.Error())
		return
	}
	ak := "erin"
	secrets := []string{}
	mk := func() string { s := w.secret(); secrets = append(secrets, s); return s }
	// the starting state each first operation needs
	a0 := acct{mk(), "user", 2100, 3100}
	if first != "create" {
		if r := w.root.Admin("/create-user", "", createBody(ak, a0)); r.Status != 201 {
			c.Inconclusive("create: " + r.String())
			return
		}
		lookup(w.root, ak, a0.Secret) // cached
	}
	run := func(op string) *s3c.Resp {
		switch op {
		case "create":
			return w.root.Do(&s3c.Req{Method: "PATCH", Path: "/create-user", Body: createBody(ak, acct{mk(), "user", 2200, 3200}), FreshConn: true})
		case "update-secret":
			s := mk()
			return w.root.Do(&s3c.Req{Method: "PATCH", Path: "/update-user", Query: s3c.Q("access", ak), Body: updateBody(&s, nil, nil), FreshConn: true})
		default:
			return w.root.Do(&s3c.Req{Method: "PATCH", Path: "/delete-user", Query: s3c.Q("access", ak), FreshConn: true})
		}
	}
	pol, _ := gate.HoldNth(1)
	ctl.SetPolicy(pol)
	pch := make(chan *s3c.Resp, 1)
	go func() { pch <- run(first) }()
	h := ctl.WaitHeld(10 * time.Second)
	ctl.SetPolicy(nil)
	if h == nil {
		<-pch
		c.Inconclusive("the first admin change never reached " + points[first])
		return
	}
	och := make(chan *s3c.Resp, 1)
	go func() { och <- run(second) }()
	order := "second-completed-while-first-paused"
	var or *s3c.Resp
	select {
	case or = <-och:
	case <-time.After(1200 * time.Millisecond):
		order = "second-waited-for-first"
	}
	h.Release()
	pr := <-pch
	if or == nil {
		select {
		case or = <-och:
		case <-time.After(60 * time.Second):
			c.Inconclusive("second admin change unanswered 60 s after the release")
			return
		}
	}
	c.Eval(1)
	if pr.Err != nil || or.Err != nil {
		c.Inconclusive("transport error in gated admin schedule")
		return
	}
	// the store's word
	lr := w.root.Admin("/list-users", "", nil)
	var lu listUsers
	if !lr.OK() || xml.Unmarshal(lr.Body, &lu) != nil {
		c.Violation("gate2:"+first+"|"+second+":list-users-fails", id, map[string]any{"resp": lr.String()})
		return
	}
	var stored *acct
	for _, a := range lu.Accounts {
		if a.Access == ak {
			stored = &acct{a.Secret, a.Role, a.UserID, a.GroupID}
		}
	}
	det := map[string]any{"schedule": first + " paused at " + points[first] + " | " + second + " of the same access key | release", "order": order,
		"first_answer": pr.String(), "second_answer": or.String(), "stored_account": stored}
	bad := false
	for _, s := range secrets {
		ok, r := lookup(w.root, ak, s)
		if r.Err != nil {
			c.Inconclusive("transport error in lookup")
			return
		}
		should := stored != nil && stored.Secret == s
		if ok != should {
			bad = true
			det["secret"], det["lookup"], det["store_says_accept"] = s, r.String(), should
			if ok {
				c.Violation("gate2:"+first+"|"+second+":lookup-accepts-what-the-store-does-not-hold", id, det)
			} else {
				c.Violation("gate2:"+first+"|"+second+":lookup-refuses-the-stored-secret", id, det)
			}
			break
		}
	}
	if !bad {
		c.Distinct("G2|" + first + "|" + second + "|" + order + fmt.Sprintf("|stored=%v", stored != nil))
		c.Add("gated_admin_schedules", 1)
	}
}
