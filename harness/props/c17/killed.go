package c17

import (
	"fmt"
	"os"
	"path/filepath"
	"time"

	"verif/harness/internal/ev"
	"verif/harness/internal/fx"
	"verif/harness/internal/gw"
	"verif/harness/internal/s3c"
)

// Lane K: "once the admin API acknowledges creating ... an account, every later request is authenticated against the
// new state" and "never corrupt the account store" - also when a LATER account change dies half way. Three accounts
// are created and acknowledged; then the process is killed inside the next change (create / update / delete of a
// fourth account) at each of the three points of the store update; the gateway is started again on the same store.
// The change that was never acknowledged may or may not be there; the three acknowledged accounts authenticate with
// their secrets, and the store answers list-users.
func laneKilled(c *ev.Ctx, id, point, op string) {
	if !c.Want(id) {
		return
	}
	armFile := filepath.Join(gw.Scratch(), fmt.Sprintf("c17-arm-%s-%s", point, op))
	os.Remove(armFile)
	env, err := fx.New("c17k", gw.Config{Chown: true, Env: []string{"VERIF_HOOK_ARM=" + armFile, "VERIF_HOOK_CRASH=" + point + "#1"}}, 1)
	if err != nil {
		c.Inconclusive("gateway start: " + err.Error())
		return
	}
	defer env.Close()
	defer os.Remove(armFile)
	w := &world{c: c, env: env, root: c17Client(env)}
	if err := w.setupOpenBucket(); err != nil {
		c.Inconclusive(err.Error())
		return
	}
	acked := map[string]acct{}
	for i, ak := range []string{"kate", "karl", "kim", "victim"} {
		a := acct{w.secret(), "user", 2300 + i, 3300 + i}
		if r := w.root.Admin("/create-user", "", createBody(ak, a)); r.Status != 201 {
			c.Inconclusive("create: " + r.String())
			return
		}
		if ak != "victim" {
			acked[ak] = a
		}
	}
	if err := os.WriteFile(armFile, nil, 0o644); err != nil {
		c.Inconclusive(err.Error())
		return
	}
	var r *s3c.Resp
	switch op {
	case "create":
		r = w.root.Do(&s3c.Req{Method: "PATCH", Path: "/create-user", Body: createBody("late", acct{w.secret(), "user", 2400, 3400}), FreshConn: true, Watchdog: 20 * time.Second})
	case "update":
		s := w.secret()
		r = w.root.Do(&s3c.Req{Method: "PATCH", Path: "/update-user", Query: s3c.Q("access", "victim"), Body: updateBody(&s, nil, nil), FreshConn: true, Watchdog: 20 * time.Second})
	default:
		r = w.root.Do(&s3c.Req{Method: "PATCH", Path: "/delete-user", Query: s3c.Q("access", "victim"), FreshConn: true, Watchdog: 20 * time.Second})
	}
	os.Remove(armFile)
	c.Eval(1)
	g := env.GWs[0]
	if g.Alive() && !g.WaitExit(3*time.Second) {
		c.Observe(fmt.Sprintf("lane K: the gateway did not reach %s during %s (%s)", point, op, r))
		return
	}
	if r.Err == nil && r.Status >= 200 && r.Status < 300 {
		c.Observe("lane K: the change was acknowledged although the process died in it")
	}
	if err := env.Restart(0); err != nil {
		c.Violation("killed-change:gateway-does-not-start-again:"+point, id, map[string]any{"operation": op, "error": firstLineK(err.Error())})
		return
	}
	w.root = c17Client(env)
	bad := false
	for ak, a := range acked {
		ok, resp := lookup(w.root, ak, a.Secret)
		c.Eval(1)
		if !ok {
			bad = true
			c.Violation("killed-change:acknowledged-account-lost:"+point, id, map[string]any{"killed_operation": op + " of another account", "killed_at": point, "account": ak, "lookup_after_restart": resp.String()})
			break
		}
	}
	if lr := w.root.Admin("/list-users", "", nil); !lr.OK() {
		bad = true
		c.Violation("killed-change:store-unreadable:"+point, id, map[string]any{"killed_operation": op, "list_users": lr.String()})
	}
	if !bad {
		c.Distinct("K|" + point + "|" + op)
	}
}

func firstLineK(s string) string {
	for i := 0; i < len(s); i++ {
		if s[i] == '\n' {
			return s[:i]
		}
	}
	return s
}

// c17Client: the first client of the environment with a 25 s watchdog per request. Nothing this check sends takes
// seconds on a healthy gateway; a gateway that has stopped answering must not cost two minutes per request.
func c17Client(env *fx.Env) *s3c.Client {
	cl := env.Client(0)
	cl.DefaultWatchdog = 25 * time.Second
	return cl
}
