package c16

import (
	"fmt"
	"strings"

	"verif/harness/internal/ev"
	"verif/harness/internal/fx"
	"verif/harness/internal/gw"
	"verif/harness/internal/s3c"
)

// bucket sub-resources of the S3 API that have a DELETE form (or a PUT form that SDKs pair with a DELETE)
var otherSubresources = []string{
	"lifecycle=", "website=", "encryption=", "replication=", "publicAccessBlock=", "analytics=&id=report", "metrics=&id=all",
	"inventory=&id=weekly", "intelligent-tiering=&id=cold", "metadataTable=", "notification=", "logging=", "accelerate=", "requestPayment=",
}

// Lane U: "DeleteBucket succeeds only on a bucket without objects" is about DeleteBucket. A DELETE that addresses one
// setting of a bucket (DELETE /b?lifecycle is DeleteBucketLifecycle to every SDK) asks for that setting to be removed
// and for nothing else: whatever the gateway answers - success, NotImplemented, an error - the bucket with its owner,
// tags, policy, ownership controls and versioning state is still there afterwards. The bucket is empty, so a request
// mistaken for DeleteBucket would succeed.
func laneOtherSettingDelete(c *ev.Ctx, id string, sidecar bool) {
	if !c.Want(id) {
		return
	}
	env, err := fx.New("c16u", gw.Config{Sidecar: sidecar, Versioning: true}, 1)
	if err != nil {
		c.Inconclusive("gateway start: " + err.Error())
		return
	}
	defer env.Close()
	root := env.Client(0)
	if rr := env.CreateUser("alice", "alicesecret", "userplus", 0, 0); rr.Status != 201 {
		c.Inconclusive("create user: " + rr.String())
		return
	}
	alice := root.With("alice", "alicesecret")
	for i, sub := range otherSubresources {
		cid := fmt.Sprintf("%s/%d", id, i)
		if !c.Want(cid) {
			continue
		}
		b := fmt.Sprintf("one-setting-%d", i)
		tagBody := s3c.TaggingXML(map[string]string{"team": "storage"})
		pol := []byte(fmt.Sprintf(`{"Version":"2012-10-17","Statement":[{"Effect":"Allow","Principal":{"AWS":["alice"]},"Action":"s3:*","Resource":["arn:aws:s3:::%s","arn:aws:s3:::%s/*"]}]}`, b, b))
		ok := alice.CreateBucket(b, "x-amz-object-ownership", "BucketOwnerPreferred").OK() &&
			alice.Sub("PUT", b, "", "tagging=", tagBody, "Content-MD5", s3c.MD5B64(tagBody)).OK() &&
			alice.Sub("PUT", b, "", "policy=", pol).OK()
		if !ok {
			c.Inconclusive("lane U: preparing the bucket")
			continue
		}
		take := func() string {
			var parts []string
			for _, q := range []string{"acl=", "tagging=", "policy=", "ownershipControls=", "versioning="} {
				g := alice.Sub("GET", b, "", q, nil)
				body := string(g.Body)
				if strings.HasPrefix(strings.TrimSpace(body), "<") && g.OK() {
					body = canonXML(g.Body)
				} else if !g.OK() {
					body = g.ErrCode()
				}
				parts = append(parts, fmt.Sprintf("%s%d:%s", q, g.Status, body))
			}
			l := alice.ListBuckets()
			parts = append(parts, fmt.Sprintf("listed=%v head=%d", strings.Contains(string(l.Body), "<Name>"+b+"</Name>"), alice.Sub("HEAD", b, "", "", nil).Status))
			return strings.Join(parts, " | ")
		}
		before := take()
		r := alice.Sub("DELETE", b, "", sub, nil)
		c.Eval(1)
		if r.Err != nil {
			c.Inconclusive("lane U: transport error")
			continue
		}
		after := take()
		name := strings.SplitN(sub, "=", 2)[0]
		if after != before {
			c.Violation("delete-of-one-setting:bucket-or-other-settings-changed:"+name, cid, map[string]any{"request": "DELETE /" + b + "?" + sub, "answer": r.String(), "before": before, "after": after, "store": map[bool]string{false: "xattr", true: "sidecar"}[sidecar]})
			continue
		}
		c.Distinct(fmt.Sprintf("U|%s|%d|%v", name, r.Status, sidecar))
	}
}
