package c16

import (
	"encoding/xml"
	"fmt"
	"strings"
	"time"

	"verif/harness/internal/ev"
	"verif/harness/internal/fx"
	"verif/harness/internal/gate"
	"verif/harness/internal/gw"
	"verif/harness/internal/s3c"
)

// Lane K: "creating a bucket that already exists fails and leaves its owner ... untouched; a non-admin's ListBuckets
// shows exactly the buckets it owns" - also when the bucket exists only half: CreateBucket of one account is paused at
// each of its instrumentation points (after the mkdir, after the ACL is stored, ...) while another account sends
// CreateBucket for the same name. At most one of the two may be acknowledged; the bucket then belongs to the account
// whose create was acknowledged, is listed for it alone, and the other one is refused on it.
func laneCreateCreate(c *ev.Ctx, sidecar bool) {
	store := "xattr"
	if sidecar {
		store = "sidecar"
	}
	base := "K/" + store
	if !c.Want(base) {
		return
	}
	ctl, err := gate.New(gw.Scratch())
	if err != nil {
		c.Inconclusive(err.Error())
		return
	}
	defer ctl.Close()
	env, err := fx.New("c16k", gw.Config{Sidecar: sidecar, Env: ctl.Env()}, 1)
	if err != nil {
		c.Inconclusive("gateway start (lane K): " + err.Error())
		return
	}
	defer env.Close()
	root := env.Client(0)
	for _, u := range []string{"alice", "bob"} {
		if r := env.CreateUser(u, u+"-secret-1", "userplus", 0, 0); r.Status != 201 {
			c.Inconclusive("create user: " + r.String())
			return
		}
	}
	alice, bob := root.With("alice", "alice-secret-1"), root.With("bob", "bob-secret-1")
	// learn the points of CreateBucket
	pol, seen := gate.TraceFirst()
	ctl.SetPolicy(pol)
	alice.CreateBucket("trace-bucket")
	ctl.SetPolicy(nil)
	trace := seen()
	if len(trace) == 0 {
		c.Inconclusive("CreateBucket passed no instrumentation point")
		return
	}
	c.Set("create_bucket_points_"+store, trace)
	owner := func(b string) string {
		g := root.Sub("GET", b, "", "acl=", nil)
		var a aclGet
		xml.Unmarshal(g.Body, &a)
		return fmt.Sprintf("%d:%s", g.Status, a.Owner.ID)
	}
	lists := func(cl *s3c.Client, b string) bool {
		l := cl.ListBuckets()
		return l.OK() && strings.Contains(string(l.Body), "<Name>"+b+"</Name>")
	}
	for j := 1; j <= len(trace); j++ {
		id := fmt.Sprintf("%s/%d", base, j)
		if !c.Want(id) {
			continue
		}
		b := fmt.Sprintf("twice-%s-%d", store, j)
		hp, _ := gate.HoldNth(j)
		ctl.SetPolicy(hp)
		ach := make(chan *s3c.Resp, 1)
		go func() {
			ach <- alice.Do(&s3c.Req{Method: "PUT", Path: "/" + b, Header: s3c.H{{"x-amz-object-ownership", "BucketOwnerPreferred"}}, FreshConn: true})
		}()
		h := ctl.WaitHeld(10 * time.Second)
		ctl.SetPolicy(nil)
		if h == nil {
			<-ach
			c.Observe("lane K: CreateBucket passed fewer points than its trace run")
			continue
		}
		point := h.Name
		br := bob.Do(&s3c.Req{Method: "PUT", Path: "/" + b, FreshConn: true, Watchdog: 20 * time.Second})
		h.Release()
		ar := <-ach
		c.Eval(1)
		det := map[string]any{"store": store, "schedule": "CreateBucket by alice paused at " + point + " | CreateBucket by bob, same name | release", "answer_alice": ar.String(), "answer_bob": br.String()}
		sig := "create-create:CreateBucket@" + point + "|CreateBucket:"
		if br.Err != nil {
			c.Distinct("K|" + store + "|" + point + "|second-waits")
			continue
		}
		if ar.Err != nil {
			c.Inconclusive("transport error in lane K")
			return
		}
		own := owner(b)
		det["owner_now"], det["listed_for_alice"], det["listed_for_bob"] = own, lists(alice, b), lists(bob, b)
		switch {
		case ar.OK() && br.OK():
			c.Violation(sig+"both-creates-acknowledged["+store+"]", id, det)
			continue
		case !ar.OK() && !br.OK():
			// both refused: nobody was told it owns the bucket; whatever is left must not be anybody's bucket by accident
			c.Observe(fmt.Sprintf("lane K: both creates refused at %s (%s / %s)", point, ar.String(), br.String()))
			c.Distinct("K|" + store + "|" + point + "|both-refused")
			continue
		}
		winner, wcl, lcl := "alice", alice, bob
		if br.OK() {
			winner, wcl, lcl = "bob", bob, alice
		}
		bad := ""
		switch {
		case own != "200:"+winner:
			bad = "owner-is-not-the-account-whose-create-was-acknowledged"
		case !lists(wcl, b):
			bad = "not-listed-for-its-owner"
		case lists(lcl, b):
			bad = "listed-for-the-account-that-was-refused"
		}
		if bad == "" {
			if p := lcl.PutObject(b, "intruder", []byte("x")); p.OK() {
				det["put_by_refused_account"] = p.String()
				bad = "refused-account-can-write"
			}
		}
		if bad == "" {
			if p := wcl.PutObject(b, "mine", []byte("x")); !p.OK() {
				det["put_by_owner"] = p.String()
				bad = "owner-cannot-write"
			}
		}
		if bad != "" {
			c.Violation(sig+bad+"["+store+"]", id, det)
			continue
		}
		c.Distinct("K|" + store + "|" + point + "|winner=" + winner)
	}
}
