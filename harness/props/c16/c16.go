// Package c16: bucket lifecycle and settings are faithful; deletion never loses data.
//
// Lane N: bucket names (direct calls of utils.IsValidBucketName + real CreateBucket).
// Lane S: settings round trips (put -> get, last wins, restart, delete), create on
//
//	existing, ListBuckets ownership/paging chains.
//
// Lane D: deterministic schedules of DeleteBucket against concurrent uploads
//
//	(hook scheduler), plus a stress lane.
package c16

import (
	"encoding/json"
	"encoding/xml"
	"fmt"
	"math/rand"
	"os"
	"path/filepath"
	"regexp"
	"sort"
	"strings"
	"sync"
	"time"

	"github.com/versity/versitygw/s3api/utils"

	"verif/harness/internal/ev"
	"verif/harness/internal/fx"
	"verif/harness/internal/gate"
	"verif/harness/internal/gw"
	"verif/harness/internal/reg"
	"verif/harness/internal/s3c"
	"verif/harness/internal/snap"
)

func init() { reg.Register("C16", "exploration", Run) }

// ---- lane N: names -----------------------------------------------------------

var ipv4 = regexp.MustCompile(`^[0-9]+\.[0-9]+\.[0-9]+\.[0-9]+$`)

func alnum(b byte) bool { return b >= 'a' && b <= 'z' || b >= '0' && b <= '9' }

// refName: the core S3 naming rules. Returns (valid, judged).
func refName(n string) (bool, bool, string) {
	if len(n) < 3 {
		return false, true, "too-short"
	}
	if len(n) > 63 {
		return false, true, "too-long"
	}
	for i := 0; i < len(n); i++ {
		b := n[i]
		if !(alnum(b) || b == '.' || b == '-') {
			switch {
			case b >= 'A' && b <= 'Z':
				return false, true, "upper-case"
			case b == '_':
				return false, true, "underscore"
			case b >= 0x80:
				return false, true, "non-ascii"
			default:
				return false, true, "other-char"
			}
		}
	}
	if !alnum(n[0]) {
		return false, true, "bad-first-char"
	}
	if !alnum(n[len(n)-1]) {
		return false, true, "bad-last-char"
	}
	if ipv4.MatchString(n) {
		return false, true, "ipv4-literal"
	}
	// extended rules the statement does not spell out: generated, not judged
	if strings.Contains(n, "..") || strings.Contains(n, ".-") || strings.Contains(n, "-.") ||
		strings.HasPrefix(n, "xn--") || strings.HasPrefix(n, "sthree-") || strings.HasSuffix(n, "-s3alias") || strings.HasSuffix(n, "--ol-s3") {
		return true, false, "extended-rule"
	}
	return true, true, "valid"
}

func genName(r *rand.Rand) string {
	alph := []string{"abcxyz019", "abcxyz019.-", "abcXYZ019.-_", "a1.-", "ab\xc3\xa9", "a b%+"}[r.Intn(6)]
	n := []int{0, 1, 2, 3, 4, 10, 62, 63, 64, 70}[r.Intn(10)]
	if r.Intn(3) == 0 {
		n = r.Intn(70)
	}
	b := make([]byte, n)
	for i := range b {
		b[i] = alph[r.Intn(len(alph))]
	}
	s := string(b)
	switch r.Intn(12) {
	case 0:
		s = fmt.Sprintf("%d.%d.%d.%d", r.Intn(300), r.Intn(300), r.Intn(300), r.Intn(300))
	case 1:
		s = "." + s
	case 2:
		s = s + "-"
	case 3:
		s = "xn--" + s
	case 4:
		if len(s) > 4 {
			s = s[:2] + ".." + s[4:]
		}
	}
	return s
}

func laneNames(c *ev.Ctx) {
	r := c.Rng("names")
	// direct (IsValidBucketName prints a debug line to stdout for every refusal: silence it meanwhile)
	n := c.Pick(200000, 1000000)
	if dn, err := os.OpenFile(os.DevNull, os.O_WRONLY, 0); err == nil {
		old := os.Stdout
		os.Stdout = dn
		defer func() { os.Stdout = old; dn.Close() }()
	}
	for i := 0; i < n; i++ {
		name := genName(r)
		want, judged, class := refName(name)
		got := utils.IsValidBucketName(name, false)
		c.Eval(1)
		if !judged {
			c.Observe("name with extended-rule feature not judged")
			continue
		}
		c.Distinct("N|direct|" + class)
		if got != want {
			c.Violation("name:direct:"+class, fmt.Sprintf("N/direct/%d", i), map[string]any{"name": name, "IsValidBucketName": got, "reference": want})
		}
	}
	// end to end
	env, err := fx.New("c16n", gw.Config{}, 1)
	if err != nil {
		c.Inconclusive("gateway start: " + err.Error())
		return
	}
	defer env.Close()
	cl := env.Client(0)
	m := c.Pick(500, 20000)
	for i := 0; i < m; i++ {
		name := genName(r)
		id := fmt.Sprintf("N/e2e/%d", i)
		if !c.Want(id) || name == "" || strings.ContainsAny(name, "/?#\x00") || name == "." || name == ".." {
			continue
		}
		want, judged, class := refName(name)
		resp := cl.Do(&s3c.Req{Method: "PUT", Path: "/" + s3c.URIEncode(name, true)})
		c.Eval(1)
		if resp.Err != nil {
			if _, cr := env.Dead(); cr != nil {
				c.Violation("name:e2e:gateway-died", id, map[string]any{"name": name, "crash": cr.Message})
				return
			}
			c.Inconclusive("transport error")
			continue
		}
		_, statErr := os.Stat(filepath.Join(env.Store.Root, name))
		exists := statErr == nil
		if !judged {
			if exists {
				cl.DeleteBucket(name)
			}
			continue
		}
		c.Distinct("N|e2e|" + class)
		if !want && (resp.OK() || exists) {
			c.Violation("name:e2e:"+class+":accepted", id, map[string]any{"name": name, "status": resp.String(), "directory_created": exists})
		}
		if want && !resp.OK() {
			c.Observe("in-rule name refused: " + resp.String())
		}
		if exists {
			cl.DeleteBucket(name)
		}
		if i < 2 {
			c.Sample(map[string]any{"lane": "names", "name": name, "reference_valid": want, "status": resp.String()})
		}
	}
}

// ---- lane S: settings --------------------------------------------------------

type listAll struct {
	Buckets struct {
		Bucket []struct{ Name string }
	}
	ContinuationToken string
	Prefix            string
}

func canonXML(b []byte) string {
	// order-insensitive, whitespace-insensitive rendering of element text content
	d := xml.NewDecoder(strings.NewReader(string(b)))
	var path []string
	var out []string
	for {
		t, err := d.Token()
		if err != nil {
			break
		}
		switch x := t.(type) {
		case xml.StartElement:
			path = append(path, x.Name.Local)
		case xml.EndElement:
			path = path[:len(path)-1]
		case xml.CharData:
			s := strings.TrimSpace(string(x))
			if s != "" {
				out = append(out, strings.Join(path[1:], "/")+"="+s)
			}
		}
	}
	sort.Strings(out)
	return strings.Join(out, ";")
}

func canonJSON(b []byte) string {
	var v any
	if json.Unmarshal(b, &v) != nil {
		return "unparsable:" + string(b)
	}
	o, _ := json.Marshal(v)
	return string(o)
}

type setting struct {
	name   string
	sub    string
	gen    func(r *rand.Rand, bucket string) []byte
	canon  func([]byte) string
	del    bool // has a DELETE
	goneOK func(*s3c.Resp) bool
}

func settings() []setting {
	tagDoc := func(r *rand.Rand, _ string) []byte {
		m := map[string]string{}
		for i := 0; i < 1+r.Intn(5); i++ {
			m[fmt.Sprintf("k%d", r.Intn(20))] = fmt.Sprintf("v %d+=", r.Intn(1000))
		}
		return s3c.TaggingXML(m)
	}
	polDoc := func(r *rand.Rand, b string) []byte {
		acts := []string{"s3:GetObject", "s3:PutObject", "s3:DeleteObject", "s3:GetObjectTagging"}
		return []byte(fmt.Sprintf(`{"Version":"2012-10-17","Statement":[{"Effect":"%s","Principal":"*","Action":"%s","Resource":"arn:aws:s3:::%s/p%d/*"}]}`,
			[]string{"Allow", "Deny"}[r.Intn(2)], acts[r.Intn(len(acts))], b, r.Intn(100)))
	}
	ownDoc := func(r *rand.Rand, _ string) []byte {
		o := []string{"BucketOwnerPreferred", "ObjectWriter", "BucketOwnerEnforced"}[r.Intn(3)]
		return []byte(`<OwnershipControls xmlns="http://s3.amazonaws.com/doc/2006-03-01/"><Rule><ObjectOwnership>` + o + `</ObjectOwnership></Rule></OwnershipControls>`)
	}
	verDoc := func(r *rand.Rand, _ string) []byte {
		s := []string{"Enabled", "Suspended"}[r.Intn(2)]
		return []byte(`<VersioningConfiguration xmlns="http://s3.amazonaws.com/doc/2006-03-01/"><Status>` + s + `</Status></VersioningConfiguration>`)
	}
	lockDoc := func(r *rand.Rand, _ string) []byte {
		mode := []string{"GOVERNANCE", "COMPLIANCE"}[r.Intn(2)]
		unit := []string{"Days", "Years"}[r.Intn(2)]
		return []byte(fmt.Sprintf(`<ObjectLockConfiguration xmlns="http://s3.amazonaws.com/doc/2006-03-01/"><ObjectLockEnabled>Enabled</ObjectLockEnabled><Rule><DefaultRetention><Mode>%s</Mode><%s>%d</%s></DefaultRetention></Rule></ObjectLockConfiguration>`,
			mode, unit, 1+r.Intn(30), unit))
	}
	notFound := func(r *s3c.Resp) bool { return r.Status == 404 }
	return []setting{
		{"tagging", "tagging=", tagDoc, canonXML, true, notFound},
		{"policy", "policy=", polDoc, canonJSON, true, notFound},
		{"ownershipControls", "ownershipControls=", ownDoc, canonXML, true, notFound},
		{"versioning", "versioning=", verDoc, canonXML, false, nil},
		{"object-lock", "object-lock=", lockDoc, canonXML, false, nil},
	}
}

func laneSettings(c *ev.Ctx, id string, seed int64) {
	r := rand.New(rand.NewSource(seed))
	env, err := fx.New("c16s", gw.Config{Versioning: true, Sidecar: seed%2 == 1}, 2)
	if err != nil {
		c.Inconclusive("gateway start: " + err.Error())
		return
	}
	defer env.Close()
	store := "xattr"
	if seed%2 == 1 {
		store = "sidecar"
	}
	cl := [2]*s3c.Client{env.Client(0), env.Client(1)}
	b := "set-bucket"
	if rr := cl[0].CreateBucket(b, "x-amz-bucket-object-lock-enabled", "true"); !rr.OK() {
		c.Inconclusive("create: " + rr.String())
		return
	}
	current := map[string]string{}
	get := func(cli *s3c.Client, s setting) *s3c.Resp { return cli.Sub("GET", b, "", s.sub, nil) }
	checkAll := func(when string) {
		for _, s := range settings() {
			want, has := current[s.name]
			g := get(cl[r.Intn(2)], s)
			if !has {
				continue
			}
			if want == "" {
				if s.goneOK != nil && !s.goneOK(g) {
					c.Violation("setting:"+s.name+":"+when+":survives-its-deletion["+store+"]", id, map[string]any{"get": g.String(), "body": string(g.Body)})
				}
				continue
			}
			if !g.OK() {
				c.Violation("setting:"+s.name+":"+when+":not-readable["+store+"]", id, map[string]any{"get": g.String()})
			} else if got := s.canon(g.Body); got != want {
				c.Violation("setting:"+s.name+":"+when+":differs-from-last-written["+store+"]", id, map[string]any{"got": got, "want": want})
			}
		}
	}
	steps := 12 + r.Intn(10)
	sets := settings()
	for n := 0; n < steps; n++ {
		s := sets[r.Intn(len(sets))]
		if s.del && r.Intn(4) == 0 {
			d := cl[r.Intn(2)].Sub("DELETE", b, "", s.sub, nil)
			c.Eval(1)
			if d.Status == 204 || d.Status == 200 {
				current[s.name] = ""
				c.Distinct("S|" + s.name + "|delete|" + store)
			}
		} else {
			doc := s.gen(r, b)
			p := cl[r.Intn(2)].Sub("PUT", b, "", s.sub, doc)
			c.Eval(1)
			if p.OK() {
				current[s.name] = s.canon(doc)
				c.Distinct("S|" + s.name + "|put|" + store)
			} else {
				c.Observe("setting put refused: " + s.name + " " + p.String())
			}
		}
		checkAll("after-step")
		if n == steps/2 {
			env.Restart(0)
			env.Restart(1)
			cl = [2]*s3c.Client{env.Client(0), env.Client(1)}
			checkAll("after-restart")
			c.Distinct("S|restart|" + store)
		}
	}
	// create on existing: by root (owner), by another admin, by a userplus account
	env.CreateUser("plus1", "plussecret1", "userplus", 0, 0)
	env.CreateUser("adm1", "admsecret1", "admin", 0, 0)
	cl[0].PutObject(b, "content", []byte("keep me"))
	skip := func(rel string) bool { return false }
	for _, who := range []struct{ name, ak, sk string }{{"owner", gw.RootAK, gw.RootSK}, {"other-admin", "adm1", "admsecret1"}, {"userplus", "plus1", "plussecret1"}} {
		before, _ := snap.Take(env.Store.Base, skip)
		rr := cl[0].With(who.ak, who.sk).CreateBucket(b, "x-amz-acl", "public-read-write", "x-amz-object-ownership", "ObjectWriter")
		after, _ := snap.Take(env.Store.Base, skip)
		c.Eval(1)
		d := snap.Diff(before, after)
		var dd []string
		for _, l := range d {
			if !strings.Contains(l, "iam/") {
				dd = append(dd, l)
			}
		}
		if rr.OK() {
			c.Violation("create-on-existing:"+who.name+":accepted["+store+"]", id, map[string]any{"status": rr.String()})
		}
		if len(dd) > 0 {
			c.Violation("create-on-existing:"+who.name+":bucket-changed["+store+"]", id, map[string]any{"status": rr.String(), "diff": dd})
		}
		c.Distinct("S|create-on-existing|" + who.name + "|" + store)
	}
	checkAll("after-create-on-existing")
	// a bucket that is deleted and created again under the same name is a NEW bucket: nothing written to the
	// deleted one may read back from it ("gone once deleted"), and it belongs to whoever created it
	b2 := "set-bucket-reborn"
	if rr := cl[0].CreateBucket(b2); !rr.OK() {
		c.Inconclusive("create second bucket: " + rr.String())
		return
	}
	written := map[string]bool{}
	for _, s := range settings() {
		if s.name == "object-lock" {
			continue
		}
		if p := cl[0].Sub("PUT", b2, "", s.sub, s.gen(r, b2)); p.OK() {
			written[s.name] = true
		}
	}
	cl[0].PutObject(b2, "o", []byte("x"))
	cl[0].DeleteObject(b2, "o")
	// versioning may have been enabled by the generated document: remove whatever versions exist
	if lv := cl[0].Sub("GET", b2, "", "versions=", nil); lv.OK() {
		var l struct {
			Version, DeleteMarker []struct{ Key, VersionId string }
		}
		xml.Unmarshal(lv.Body, &l)
		for _, v := range append(l.Version, l.DeleteMarker...) {
			cl[0].Do(&s3c.Req{Method: "DELETE", Path: s3c.ObjPath(b2, v.Key), Query: s3c.Q("versionId", v.VersionId)})
		}
	}
	if d := cl[0].DeleteBucket(b2); d.Status != 204 && d.Status != 200 {
		c.Observe("reborn lane: DeleteBucket refused: " + d.String())
		return
	}
	plus := cl[1].With("plus1", "plussecret1")
	if rr := plus.CreateBucket(b2); !rr.OK() {
		c.Inconclusive("re-create by another account: " + rr.String())
		return
	}
	c.Eval(1)
	for _, s := range settings() {
		if !written[s.name] || s.goneOK == nil || s.name == "ownershipControls" {
			continue
		}
		if g := get2(cl[0], b2, s); !s.goneOK(g) {
			c.Violation("reborn-bucket:"+s.name+":inherited-from-deleted-bucket["+store+"]", id, map[string]any{"get": g.String(), "body": string(g.Body)})
		} else {
			c.Distinct("S|reborn|" + s.name + "|" + store)
		}
	}
	if written["versioning"] {
		if g := cl[0].Sub("GET", b2, "", "versioning=", nil); strings.Contains(string(g.Body), "<Status>") {
			c.Violation("reborn-bucket:versioning:inherited-from-deleted-bucket["+store+"]", id, map[string]any{"get": g.String(), "body": string(g.Body)})
		}
	}
	if g := cl[0].Sub("GET", b2, "", "acl=", nil); g.OK() && !strings.Contains(string(g.Body), "<ID>plus1</ID>") {
		c.Violation("reborn-bucket:acl:owner-is-not-the-creator["+store+"]", id, map[string]any{"get": g.String(), "body": string(g.Body)})
	}
	// the creator can use it, without any grant left over from the deleted bucket
	if pr := plus.PutObject(b2, "mine", []byte("y")); !pr.OK() {
		c.Violation("reborn-bucket:creator-cannot-write["+store+"]", id, map[string]any{"put": pr.String()})
	}
}

func get2(cli *s3c.Client, b string, s setting) *s3c.Resp { return cli.Sub("GET", b, "", s.sub, nil) }

// laneInternalNames: "DeleteBucket succeeds only on a bucket without objects" also for keys that coincide with names
// the gateway uses internally inside a bucket directory. An upload of such a key is either refused or the object
// counts like any other: listed, and in the way of DeleteBucket.
func laneInternalNames(c *ev.Ctx, id string, sidecar bool) {
	if !c.Want(id) {
		return
	}
	store := "xattr"
	if sidecar {
		store = "sidecar"
	}
	env, err := fx.New("c16i", gw.Config{Versioning: true, Sidecar: sidecar}, 1)
	if err != nil {
		c.Inconclusive("gateway start: " + err.Error())
		return
	}
	defer env.Close()
	cl := env.Client(0)
	for i, key := range []string{".sgwtmp/obj", ".sgwtmp/multipart/x/y", ".sgwtmp", "dir/.sgwtmp/obj", ".sgwtmp/"} {
		b := fmt.Sprintf("internal-names-%d", i)
		if rr := cl.CreateBucket(b); !rr.OK() {
			c.Inconclusive("create bucket: " + rr.String())
			return
		}
		var body []byte
		if !strings.HasSuffix(key, "/") {
			body = []byte("acknowledged data under " + key)
		}
		p := cl.PutObject(b, key, body)
		c.Eval(1)
		if !p.OK() {
			c.Distinct("I|refused|" + key + "|" + store)
			continue
		}
		det := map[string]any{"bucket": b, "key": key, "put": p.String()}
		g := cl.GetObject(b, key)
		det["get"] = g.String()
		listed := false
		if l := cl.ListV2(b); l.OK() {
			if res, err := s3c.ParseList(l.Body); err == nil {
				for _, e := range res.Contents {
					if e.Key == key {
						listed = true
					}
				}
			}
		}
		det["listed"] = listed
		d := cl.DeleteBucket(b)
		det["delete_bucket"] = d.String()
		if d.Status == 204 || d.Status == 200 {
			c.Violation("internal-name:"+key+":acknowledged-object-deleted-with-the-bucket["+store+"]", id, det)
			continue
		}
		if !g.OK() || (!strings.HasSuffix(key, "/") && string(g.Body) != string(body)) {
			c.Violation("internal-name:"+key+":acknowledged-object-unreadable["+store+"]", id, det)
		} else if !listed {
			c.Violation("internal-name:"+key+":acknowledged-object-not-listed["+store+"]", id, det)
		} else {
			c.Distinct("I|stored|" + key + "|" + store)
		}
	}
}

func laneListBuckets(c *ev.Ctx, id string, seed int64) {
	r := rand.New(rand.NewSource(seed))
	env, err := fx.New("c16l", gw.Config{}, 1)
	if err != nil {
		c.Inconclusive("gateway start: " + err.Error())
		return
	}
	defer env.Close()
	root := env.Client(0)
	users := []struct{ ak, sk string }{{"ua", "secretaaaa"}, {"ub", "secretbbbb"}, {"uc", "secretcccc"}}
	for _, u := range users {
		if rr := env.CreateUser(u.ak, u.sk, "userplus", 0, 0); rr.Status != 201 {
			c.Inconclusive("create user: " + rr.String())
			return
		}
	}
	owned := map[string][]string{}
	nb := r.Intn(26)
	for i := 0; i < nb; i++ {
		u := users[r.Intn(3)]
		name := fmt.Sprintf("%s%03d-%s", []string{"aa", "ab", "b"}[r.Intn(3)], r.Intn(500), u.ak)
		if rr := root.With(u.ak, u.sk).CreateBucket(name); rr.OK() {
			owned[u.ak] = append(owned[u.ak], name)
		}
	}
	for _, u := range users {
		sort.Strings(owned[u.ak])
		for _, prefix := range []string{"", "a", "ab", "zz"} {
			for _, max := range []string{"", "1", "2", "3", "1000"} {
				var want []string
				for _, n := range owned[u.ak] {
					if strings.HasPrefix(n, prefix) {
						want = append(want, n)
					}
				}
				var got []string
				token := ""
				pages := 0
				for {
					kv := []string{}
					if prefix != "" {
						kv = append(kv, "prefix", prefix)
					}
					if max != "" {
						kv = append(kv, "max-buckets", max)
					}
					if token != "" {
						kv = append(kv, "continuation-token", token)
					}
					rr := root.With(u.ak, u.sk).Do(&s3c.Req{Method: "GET", Path: "/", Query: s3c.Q(kv...)})
					c.Eval(1)
					if !rr.OK() {
						c.Violation("list-buckets:fails", id, map[string]any{"status": rr.String(), "query": kv})
						break
					}
					var la listAll
					xml.Unmarshal(rr.Body, &la)
					for _, bk := range la.Buckets.Bucket {
						got = append(got, bk.Name)
					}
					if max != "" && max != "1000" {
						var mi int
						fmt.Sscan(max, &mi)
						if len(la.Buckets.Bucket) > mi {
							c.Violation("list-buckets:more-than-max", id, map[string]any{"query": kv, "n": len(la.Buckets.Bucket)})
						}
					}
					pages++
					token = la.ContinuationToken
					if token == "" || pages > len(want)+3 {
						break
					}
				}
				cls := "S|list-buckets|prefix=" + fmt.Sprint(prefix != "") + "|max=" + max
				if len(want) >= 2 {
					c.Distinct(cls)
				}
				if strings.Join(got, ",") != strings.Join(want, ",") {
					sig := "list-buckets:not-exactly-the-owned-buckets"
					if pages > len(want)+3 {
						sig = "list-buckets:chain-does-not-terminate"
					}
					c.Violation(sig+":max="+max, id, map[string]any{"user": u.ak, "prefix": prefix, "max": max, "got": got, "want": want})
				}
			}
		}
	}
	// the set of buckets changes between two pages: the bucket that ended a page is deleted (or a new one is created
	// right behind it) before the next page is asked for. The rest of the chain must still be exactly the caller's
	// buckets behind the token - none skipped, none twice.
	for _, u := range users {
		for _, change := range []string{"delete-token-bucket", "create-behind-token"} {
			names := append([]string{}, owned[u.ak]...)
			sort.Strings(names)
			if len(names) < 4 {
				continue
			}
			cl := root.With(u.ak, u.sk)
			k := 1 + r.Intn(len(names)-2)
			rr := cl.Do(&s3c.Req{Method: "GET", Path: "/", Query: s3c.Q("max-buckets", fmt.Sprint(k))})
			var la listAll
			xml.Unmarshal(rr.Body, &la)
			c.Eval(1)
			if !rr.OK() || la.ContinuationToken == "" || len(la.Buckets.Bucket) != k {
				c.Observe("list-buckets: first page of the changing-set chain not as expected: " + rr.String())
				continue
			}
			token := la.ContinuationToken
			var want []string
			for _, n := range names {
				if n > token {
					want = append(want, n)
				}
			}
			switch change {
			case "delete-token-bucket":
				if d := cl.DeleteBucket(token); d.Status != 204 && d.Status != 200 {
					c.Observe("list-buckets: could not delete the token bucket: " + d.String())
					continue
				}
				var rest []string
				for _, n := range owned[u.ak] {
					if n != token {
						rest = append(rest, n)
					}
				}
				owned[u.ak] = rest
			case "create-behind-token":
				nb := token + "-x"
				if cr := cl.CreateBucket(nb); !cr.OK() {
					c.Observe("list-buckets: could not create a bucket behind the token: " + cr.String())
					continue
				}
				owned[u.ak] = append(owned[u.ak], nb)
				want = append([]string{nb}, want...)
				sort.Strings(want)
			}
			var got []string
			for pages := 0; token != "" && pages < len(want)+4; pages++ {
				rr := cl.Do(&s3c.Req{Method: "GET", Path: "/", Query: s3c.Q("max-buckets", "2", "continuation-token", token)})
				c.Eval(1)
				if !rr.OK() {
					c.Violation("list-buckets:fails", id, map[string]any{"status": rr.String(), "token": token})
					break
				}
				var pg listAll
				xml.Unmarshal(rr.Body, &pg)
				for _, bk := range pg.Buckets.Bucket {
					got = append(got, bk.Name)
				}
				token = pg.ContinuationToken
			}
			if strings.Join(got, ",") != strings.Join(want, ",") {
				c.Violation("list-buckets:chain-over-a-changed-bucket-set:"+change, id, map[string]any{"user": u.ak, "first_page_size": k, "token": la.ContinuationToken, "got": got, "want": want})
			} else {
				c.Distinct("S|list-buckets|chain|" + change)
				c.Add("list_buckets_chains_over_a_changed_set", 1)
			}
		}
	}
}

// ---- lane D: delete-bucket schedules ----------------------------------------

type dRes struct {
	r *s3c.Resp
}

func laneDelete(c *ev.Ctx, noOTmp bool, versioned bool, sidecar bool) {
	cfgName := "otmpfile"
	if noOTmp {
		cfgName = "named-temp"
	}
	if versioned {
		cfgName += "+versioned"
	}
	if sidecar {
		cfgName += "+sidecar"
	}
	ctl, err := gate.New(gw.Scratch())
	if err != nil {
		c.Inconclusive(err.Error())
		return
	}
	defer ctl.Close()
	env, err := fx.New("c16d", gw.Config{NoOTmp: noOTmp, Versioning: versioned, Sidecar: sidecar, Env: ctl.Env("*")}, 2)
	if err != nil {
		c.Inconclusive("gateway start: " + err.Error())
		return
	}
	defer env.Close()
	cl := [2]*s3c.Client{env.Client(0), env.Client(1)}
	nb := 0
	mkBucket := func() (string, bool) {
		nb++
		b := fmt.Sprintf("dbk%s%s%s%d", map[bool]string{false: "o", true: "n"}[noOTmp], map[bool]string{false: "", true: "v"}[versioned], map[bool]string{false: "", true: "s"}[sidecar], nb)
		if r := cl[0].CreateBucket(b); !r.OK() {
			c.Inconclusive("create bucket: " + r.String())
			return "", false
		}
		// a setting that must be what it is as long as the bucket exists (a DeleteBucket that fails deletes nothing)
		tb := s3c.TaggingXML(map[string]string{"keep": "me"})
		cl[0].Sub("PUT", b, "", "tagging=", tb, "Content-MD5", s3c.MD5B64(tb))
		// make .sgwtmp exist (first object goes through the fallback) and empty the bucket again
		cl[0].PutObject(b, "warm", []byte("x"))
		cl[0].DeleteObject(b, "warm")
		if versioned {
			// versioning is enabled on the (empty) bucket: uploads that land in a delete's window are archived
			if r := cl[0].PutBucketVersioning(b, "Enabled"); !r.OK() {
				c.Inconclusive("enable versioning: " + r.String())
				return "", false
			}
		}
		return b, true
	}
	body := []byte(strings.Repeat("payload-", 500))
	type op struct {
		name string
		prep func(b string) func(cl *s3c.Client) *s3c.Resp
	}
	var vmu sync.Mutex
	ackedVersions := map[string][][2]string{} // bucket -> (version id, body)
	uploads := []op{
		{"PutObject-twice", func(b string) func(*s3c.Client) *s3c.Resp {
			return func(c *s3c.Client) *s3c.Resp {
				var last *s3c.Resp
				for i := 0; i < 2; i++ {
					bd := []byte(fmt.Sprintf("version-%d-%s", i, string(body)))
					last = c.Do(&s3c.Req{Method: "PUT", Path: s3c.ObjPath(b, "dir/obj"), Body: bd, FreshConn: true})
					if last.OK() {
						if vid := last.Header.Get("X-Amz-Version-Id"); vid != "" {
							vmu.Lock()
							ackedVersions[b] = append(ackedVersions[b], [2]string{vid, string(bd)})
							vmu.Unlock()
						}
					}
				}
				return last
			}
		}},
		{"PutObject", func(b string) func(*s3c.Client) *s3c.Resp {
			return func(c *s3c.Client) *s3c.Resp {
				return c.Do(&s3c.Req{Method: "PUT", Path: s3c.ObjPath(b, "dir/obj"), Body: body, FreshConn: true})
			}
		}},
		{"CompleteMultipartUpload", func(b string) func(*s3c.Client) *s3c.Resp {
			id, r := cl[0].CreateMPU(b, "dir/obj")
			if !r.OK() {
				return nil
			}
			pr := cl[0].UploadPart(b, "dir/obj", id, 1, body)
			if !pr.OK() {
				return nil
			}
			etag := strings.Trim(pr.Header.Get("Etag"), `"`)
			return func(c *s3c.Client) *s3c.Resp {
				return c.Do(&s3c.Req{Method: "POST", Path: s3c.ObjPath(b, "dir/obj"), Query: s3c.Q("uploadId", id), Body: s3c.CompleteXML([]s3c.Part{{N: 1, ETag: etag}}), FreshConn: true})
			}
		}},
		{"CreateMultipartUpload", func(b string) func(*s3c.Client) *s3c.Resp {
			return func(c *s3c.Client) *s3c.Resp {
				return c.Do(&s3c.Req{Method: "POST", Path: s3c.ObjPath(b, "dir/obj"), Query: "uploads=", FreshConn: true})
			}
		}},
		{"CreateBucket", func(b string) func(*s3c.Client) *s3c.Resp {
			return func(c *s3c.Client) *s3c.Resp {
				return c.Do(&s3c.Req{Method: "PUT", Path: s3c.BucketPath(b), FreshConn: true})
			}
		}},
	}
	del := func(b string) func(*s3c.Client) *s3c.Resp {
		return func(c *s3c.Client) *s3c.Resp {
			return c.Do(&s3c.Req{Method: "DELETE", Path: s3c.BucketPath(b), FreshConn: true})
		}
	}
	ok2 := func(r *s3c.Resp) bool { return r.Err == nil && r.Status >= 200 && r.Status < 300 }
	// judge after both returned
	judge := func(id, sched, upName string, b string, delR, upR *s3c.Resp, place int) {
		det := map[string]any{"config": cfgName, "schedule": sched, "delete_bucket": delR.String(), upName: upR.String(), "placement": place}
		base := sched
		hb := cl[0].HeadBucket(b)
		exists := hb.Status == 200
		if exists && !ok2(delR) && upName != "CreateBucket" {
			// the delete failed: the bucket is the one that was created, with what was set on it
			tg := cl[0].Sub("GET", b, "", "tagging=", nil)
			if tm, _ := s3c.ParseTagging(tg.Body); !tg.OK() || tm["keep"] != "me" {
				det["get_bucket_tagging"] = tg.String()
				c.Violation(base+":bucket-settings-lost-although-delete-failed", "D/"+id, det)
			}
		}
		if upName == "CreateBucket" {
			// either outcome order is fine, but the bucket must be whole if it exists
		} else if upName == "CreateMultipartUpload" {
			// no object is acknowledged by an initiation: both succeeding loses no acknowledged object
			if ok2(delR) && ok2(upR) {
				c.Observe("CreateMultipartUpload and DeleteBucket both acknowledged (upload id lost with the bucket)")
			}
		} else if ok2(delR) && ok2(upR) {
			c.Violation(base+":both-acknowledged", "D/"+id, det)
		}
		// every version acknowledged while the delete was in flight must still be readable when the bucket exists,
		// and must not be gone if DeleteBucket failed
		vmu.Lock()
		acked := ackedVersions[b]
		vmu.Unlock()
		if len(acked) > 0 && !ok2(delR) {
			for _, v := range acked {
				g := cl[1].GetObjectV(b, "dir/obj", v[0])
				if !g.OK() || string(g.Body) != v[1] {
					det["lost_version"] = v[0]
					det["get_version"] = g.String()
					c.Violation(base+":acknowledged-version-lost-although-delete-failed", "D/"+id, det)
					break
				}
			}
		}
		if upName == "PutObject" || upName == "CompleteMultipartUpload" {
			if ok2(upR) {
				g := cl[1].GetObject(b, "dir/obj")
				if !g.OK() || string(g.Body) != string(body) {
					det["get_after"] = g.String()
					c.Violation(base+":acknowledged-upload-lost", "D/"+id, det)
				}
			}
		}
		if exists {
			// the bucket must still be a proper bucket: ACL readable, listable, deletable after emptying
			a := cl[0].Sub("GET", b, "", "acl=", nil)
			if !a.OK() {
				det["get_acl"] = a.String()
				c.Violation(base+":bucket-exists-without-acl", "D/"+id, det)
			}
		} else {
			if _, err := os.Stat(filepath.Join(env.Store.Root, b)); err == nil {
				det["head_bucket"] = hb.String()
				c.Violation(base+":directory-left-but-bucket-unusable", "D/"+id, det)
			}
			if upName == "CreateBucket" && ok2(upR) && !ok2(delR) {
				c.Violation(base+":created-bucket-missing", "D/"+id, det)
			}
		}
	}
	runSched := func(id, pName string, pRun func(*s3c.Client) *s3c.Resp, oName string, oRun func(*s3c.Client) *s3c.Resp, j int, wantPoint string, place int, b string, upName string, pIsDelete bool) {
		pol, _ := gate.HoldNth(j)
		ctl.SetPolicy(pol)
		ch := make(chan *s3c.Resp, 1)
		go func() { ch <- pRun(cl[0]) }()
		h := ctl.WaitHeld(8 * time.Second)
		if h == nil {
			ctl.SetPolicy(nil)
			<-ch
			c.Inconclusive(fmt.Sprintf("%s never reached hit %d", pName, j))
			return
		}
		ctl.SetPolicy(nil)
		if h.Name != wantPoint {
			h.Release()
			<-ch
			c.Inconclusive(fmt.Sprintf("%s hit %d is %s, trace said %s", pName, j, h.Name, wantPoint))
			return
		}
		oR := oRun(cl[place])
		h.Release()
		pR := <-ch
		c.Eval(1)
		sched := fmt.Sprintf("%s@%s|%s", pName, wantPoint, oName)
		c.Distinct(fmt.Sprintf("D|%s|%s|%d", cfgName, sched, place))
		c.Add("interleavings", 1)
		if pIsDelete {
			judge(id, sched, upName, b, pR, oR, place)
		} else {
			judge(id, sched, upName, b, oR, pR, place)
		}
		if nb%9 == 0 {
			c.Sample(map[string]any{"lane": "delete-schedules", "config": cfgName, "schedule": sched, "P": pR.String(), "O": oR.String()})
		}
	}
	// P = DeleteBucket at each of its points, O = each upload kind
	traceOf := func(run func(*s3c.Client) *s3c.Resp) []string {
		pol, seen := gate.TraceFirst()
		ctl.SetPolicy(pol)
		run(cl[0])
		ctl.SetPolicy(nil)
		return seen()
	}
	b0, ok := mkBucket()
	if !ok {
		return
	}
	delTrace := traceOf(del(b0))
	for j, pt := range delTrace {
		for _, up := range uploads {
			for place := 0; place < 2; place++ {
				id := fmt.Sprintf("%s/del/%d/%s/%d", cfgName, j+1, up.name, place)
				if !c.Want("D/" + id) {
					continue
				}
				b, ok := mkBucket()
				if !ok {
					return
				}
				oRun := up.prep(b)
				if oRun == nil {
					c.Inconclusive("prepare " + up.name)
					continue
				}
				runSched(id, "DeleteBucket", del(b), up.name, oRun, j+1, pt, place, b, up.name, true)
			}
		}
	}
	// converse: P = upload held at each of its points, O = DeleteBucket
	for _, up := range uploads[1:3] {
		bt, ok := mkBucket()
		if !ok {
			return
		}
		tr := up.prep(bt)
		if tr == nil {
			continue
		}
		trace := traceOf(tr)
		for j, pt := range trace {
			for place := 0; place < 2; place++ {
				if !c.Thorough() && place == 1 && j%2 == 1 {
					continue
				}
				id := fmt.Sprintf("%s/%s/%d/del/%d", cfgName, up.name, j+1, place)
				if !c.Want("D/" + id) {
					continue
				}
				b, ok := mkBucket()
				if !ok {
					return
				}
				pRun := up.prep(b)
				if pRun == nil {
					continue
				}
				runSched(id, up.name, pRun, "DeleteBucket", del(b), j+1, pt, place, b, up.name, false)
			}
		}
	}
	if i, cr := env.Dead(); cr != nil {
		c.Violation("D:gateway-died:"+cr.TopFrame, "D/"+cfgName, map[string]any{"gateway": i, "crash": cr.Message})
	}
}

func laneStress(c *ev.Ctx, id string, seed int64, race bool) {
	env, err := fx.New("c16x", gw.Config{Race: race, Env: []string{fmt.Sprintf("VERIF_HOOK_RAND=%d:300:2", seed)}}, 1)
	if err != nil {
		c.Inconclusive("gateway start: " + err.Error())
		return
	}
	defer env.Close()
	names := []string{"race-a", "race-b"}
	var mu sync.Mutex
	type ack struct {
		bucket, key string
		body        string
		t           int64
	}
	var putsAcked []ack
	type delAck struct {
		bucket   string
		call, rt int64
	}
	var dels []delAck
	t0 := time.Now()
	now := func() int64 { return int64(time.Since(t0)) }
	var wg sync.WaitGroup
	for ci := 0; ci < 8; ci++ {
		wg.Add(1)
		go func(ci int) {
			defer wg.Done()
			r := rand.New(rand.NewSource(seed*31 + int64(ci)))
			cl := env.Client(0)
			for n := 0; n < 25; n++ {
				b := names[r.Intn(2)]
				switch r.Intn(4) {
				case 0:
					cl.CreateBucket(b)
				case 1:
					t := now()
					rr := cl.DeleteBucket(b)
					if rr.Status == 204 {
						mu.Lock()
						dels = append(dels, delAck{b, t, now()})
						mu.Unlock()
					}
				default:
					key := fmt.Sprintf("k-%d-%d", ci, n)
					body := fmt.Sprintf("body-%d-%d-%d", seed, ci, n)
					t := now()
					rr := cl.PutObject(b, key, []byte(body))
					if rr.OK() {
						mu.Lock()
						putsAcked = append(putsAcked, ack{b, key, body, t})
						mu.Unlock()
					}
				}
			}
		}(ci)
	}
	wg.Wait()
	c.Eval(200)
	c.Add("stress_runs", 1)
	if i, cr := env.Dead(); cr != nil {
		c.Violation("X:gateway-died:"+cr.TopFrame, id, map[string]any{"gateway": i, "crash": cr.Message})
		return
	}
	// conservation: an acknowledged upload may be gone only if a DeleteBucket of that bucket was acknowledged whose
	// interval does not lie entirely before the upload's call... and then that delete must NOT have overlapped the
	// upload (the statement demands one of them to fail). So: gone && exists an acknowledged delete that started after
	// the put was called => violation (the delete either overlapped the put or followed it while the bucket was not empty).
	cl := env.Client(0)
	lost := 0
	for _, p := range putsAcked {
		g := cl.GetObject(p.bucket, p.key)
		if g.OK() && string(g.Body) == p.body {
			continue
		}
		for _, d := range dels {
			if d.bucket == p.bucket && d.rt >= p.t {
				lost++
				c.Violation("X:acknowledged-upload-lost-to-delete-bucket", id, map[string]any{"bucket": p.bucket, "key": p.key, "get": g.String()})
				break
			}
		}
	}
	c.Add("stress_acked_puts", len(putsAcked))
	c.Add("stress_acked_deletes", len(dels))
	if len(putsAcked) > 0 && len(dels) > 0 {
		c.Distinct(fmt.Sprintf("X|race=%v|seed=%d", race, seed))
	}
	if race {
		for _, g := range env.GWs {
			g.Stop()
			for _, rep := range g.RaceReports() {
				sig, inV := gw.RaceSig(rep)
				if inV {
					if len(rep) > 3000 {
						rep = rep[:3000]
					}
					c.Violation("race:"+sig, id, map[string]any{"report": rep})
				} else {
					c.Observe("race report entirely inside dependencies: " + sig)
				}
			}
		}
	}
}

func Run(c *ev.Ctx) int {
	c.Assume("names: core S3 rules (3-63, [a-z0-9.-], alphanumeric ends, not an IPv4 literal); adjacent dots, dot-dash adjacency, xn--/sthree-/-s3alias forms are generated but not judged")
	c.Assume("delete schedules: one request held at a hook point while the other runs to completion (same/other process); more by stress")
	var wg sync.WaitGroup
	run := func(f func()) {
		wg.Add(1)
		go func() { defer wg.Done(); f() }()
	}
	if c.Want("N") {
		run(func() { laneNames(c) })
	}
	rs := c.Rng("settings")
	for i := 0; i < c.Pick(6, 200); i++ {
		id := fmt.Sprintf("S/settings/%d", i)
		seed := rs.Int63n(1 << 40)
		if c.Want(id) {
			run(func() { laneSettings(c, id, seed) })
		}
	}
	for i := 0; i < c.Pick(3, 100); i++ {
		id := fmt.Sprintf("S/list/%d", i)
		seed := rs.Int63n(1 << 40)
		if c.Want(id) {
			run(func() { laneListBuckets(c, id, seed) })
		}
	}
	run(func() { laneInternalNames(c, "I/xattr", false) })
	run(func() { laneInternalNames(c, "I/sidecar", true) })
	run(func() { laneSettingsVsObjects(c, "O/xattr", false) })
	run(func() { laneSettingsVsObjects(c, "O/sidecar", true) })
	run(func() { laneOtherSettingDelete(c, "U/xattr", false) })
	run(func() { laneOtherSettingDelete(c, "U/sidecar", true) })
	run(func() { laneCreateCreate(c, false) })
	run(func() { laneCreateCreate(c, true) })
	ra := c.Rng("acl")
	for i := 0; i < c.Pick(6, 200); i++ {
		id := fmt.Sprintf("A/acl/%d", i)
		seed := ra.Int63n(1 << 40)
		run(func() { laneACL(c, id, seed) })
	}
	for _, no := range []bool{false, true} {
		no := no
		if c.Want("D") {
			run(func() { laneDelete(c, no, false, false) })
			run(func() { laneDelete(c, no, true, false) })
			run(func() { laneDelete(c, no, false, true) })
		}
	}
	wg.Wait()
	rx := c.Rng("stress")
	sem := make(chan struct{}, 6)
	for i := 0; i < c.Pick(4, 120); i++ {
		id := fmt.Sprintf("X/%d", i)
		seed := rx.Int63n(1 << 30)
		if !c.Want(id) {
			continue
		}
		wg.Add(1)
		sem <- struct{}{}
		go func() { defer wg.Done(); defer func() { <-sem }(); laneStress(c, id, seed, false) }()
	}
	wg.Wait()
	if c.Thorough() {
		for i := 0; i < 4; i++ {
			id := fmt.Sprintf("X-race/%d", i)
			if c.Want(id) {
				laneStress(c, id, rx.Int63n(1<<30), true)
			}
		}
	}
	return c.Finish("lane N: generated bucket names vs the core naming rules (direct IsValidBucketName + real CreateBucket); lane S: random put/delete/get programs per bucket setting on two gateways with restart, a bucket deleted and re-created by another account; lane A: random ACLs written as document / grant headers / canned ACL, read back as grant sets through two gateways and after restarts; create-on-existing by three callers with byte-exact snapshots, ListBuckets prefix/max-buckets/continuation chains for three owners; lane D: DeleteBucket held at each of its hook points against PutObject/CompleteMultipartUpload/CreateMultipartUpload/CreateBucket and the converse, same/other process, both temp-file strategies; stress; distinct = judged classes per lane", 40)
}
