package c16

import (
	"encoding/xml"
	"fmt"
	"math/rand"
	"sort"
	"strings"

	"verif/harness/internal/ev"
	"verif/harness/internal/fx"
	"verif/harness/internal/gw"
	"verif/harness/internal/s3c"
)

// Lane A: "bucket settings (..., ACL, ...) read back exactly as last written, survive restarts". Random ACLs are
// written in the three forms PutBucketAcl accepts (AccessControlPolicy document, x-amz-grant-* headers, canned
// ACL); after every accepted write the grant SET read back (through either process, and after restarts) must be
// the set written, plus the owner's FULL_CONTROL. A grantee may hold several permissions.

type aclGet struct {
	Owner             struct{ ID string }
	AccessControlList struct {
		Grant []struct {
			Grantee struct {
				ID   string
				URI  string
				Type string `xml:"type,attr"`
			}
			Permission string
		}
	}
}

var aclPerms = []string{"READ", "WRITE", "READ_ACP", "WRITE_ACP", "FULL_CONTROL"}

func grantXML(owner string, grants [][2]string) []byte {
	var sb strings.Builder
	sb.WriteString(`<AccessControlPolicy xmlns="http://s3.amazonaws.com/doc/2006-03-01/"><Owner><ID>` + owner + `</ID></Owner><AccessControlList>`)
	for _, g := range grants {
		sb.WriteString(`<Grant><Grantee xmlns:xsi="http://www.w3.org/2001/XMLSchema-instance" xsi:type="CanonicalUser"><ID>` + g[0] + `</ID></Grantee><Permission>` + g[1] + `</Permission></Grant>`)
	}
	sb.WriteString(`</AccessControlList></AccessControlPolicy>`)
	return []byte(sb.String())
}

func laneACL(c *ev.Ctx, id string, seed int64) {
	if !c.Want(id) {
		return
	}
	r := rand.New(rand.NewSource(seed))
	sidecar := seed%2 == 1
	store := "xattr"
	if sidecar {
		store = "sidecar"
	}
	env, err := fx.New("c16a", gw.Config{Sidecar: sidecar}, 2)
	if err != nil {
		c.Inconclusive("gateway start: " + err.Error())
		return
	}
	defer env.Close()
	users := []string{"grantee1", "grantee2", "grantee3"}
	for _, u := range users {
		if rr := env.CreateUser(u, u+"secret", "user", 0, 0); rr.Status != 201 {
			c.Inconclusive("create user: " + rr.String())
			return
		}
	}
	cl := [2]*s3c.Client{env.Client(0), env.Client(1)}
	b := "acl-bucket"
	if rr := cl[0].CreateBucket(b, "x-amz-object-ownership", "BucketOwnerPreferred"); !rr.OK() {
		c.Inconclusive("create bucket: " + rr.String())
		return
	}
	var want map[string]bool // user grants "id:PERM" expected; nil = unknown (canned)
	var form string
	read := func(cli *s3c.Client) (map[string]bool, *aclGet, *s3c.Resp) {
		g := cli.Sub("GET", b, "", "acl=", nil)
		var a aclGet
		if err := xml.Unmarshal(g.Body, &a); err != nil {
			return nil, nil, g
		}
		got := map[string]bool{}
		for _, gr := range a.AccessControlList.Grant {
			who := gr.Grantee.ID
			if who == "" {
				who = gr.Grantee.URI
			}
			got[who+":"+gr.Permission] = true
		}
		return got, &a, g
	}
	keys := func(m map[string]bool) []string {
		var o []string
		for k := range m {
			o = append(o, k)
		}
		sort.Strings(o)
		return o
	}
	var cannedSeen []string
	check := func(when string) {
		got, a, g := read(cl[r.Intn(2)])
		c.Eval(1)
		if got == nil || !g.OK() {
			c.Violation("acl:"+when+":not-readable["+store+"]", id, map[string]any{"get": g.String(), "body": string(g.Body), "written_as": form})
			return
		}
		if a.Owner.ID != gw.RootAK {
			c.Violation("acl:"+when+":owner-changed["+store+"]", id, map[string]any{"owner": a.Owner.ID, "written_as": form})
		}
		userGot := map[string]bool{}
		for k := range got {
			if !strings.HasPrefix(k, gw.RootAK+":") && (strings.HasPrefix(k, "grantee")) {
				userGot[k] = true
			}
		}
		if want == nil {
			// canned: no grant of an earlier ACL may survive; the answer must be stable
			if len(userGot) > 0 {
				c.Violation("acl:"+when+":grants-of-replaced-acl-survive["+store+"]", id, map[string]any{"read": keys(got), "written_as": form})
			}
			if cannedSeen != nil && strings.Join(cannedSeen, ",") != strings.Join(keys(got), ",") {
				c.Violation("acl:"+when+":canned-acl-reads-differently-over-time["+store+"]", id, map[string]any{"first": cannedSeen, "now": keys(got), "written_as": form})
			}
			cannedSeen = keys(got)
			return
		}
		var missing, extra []string
		for k := range want {
			if !userGot[k] {
				missing = append(missing, k)
			}
		}
		for k := range userGot {
			if !want[k] {
				extra = append(extra, k)
			}
		}
		sort.Strings(missing)
		sort.Strings(extra)
		det := map[string]any{"written": keys(want), "read": keys(got), "written_as": form}
		if len(missing) > 0 {
			det["missing"] = missing
			c.Violation("acl:"+when+":written-grant-missing:"+form+"["+store+"]", id, det)
		}
		if len(extra) > 0 {
			det["extra"] = extra
			c.Violation("acl:"+when+":grant-never-written:"+form+"["+store+"]", id, det)
		}
		if !got[gw.RootAK+":FULL_CONTROL"] {
			c.Violation("acl:"+when+":owner-lost-full-control["+store+"]", id, det)
		}
	}
	steps := 10 + r.Intn(8)
	for n := 0; n < steps; n++ {
		var p *s3c.Resp
		var w map[string]bool
		switch k := r.Intn(10); {
		case k < 5: // document; one grantee may appear several times
			form = "document"
			var grants [][2]string
			w = map[string]bool{}
			for i := 0; i < 1+r.Intn(5); i++ {
				g := [2]string{users[r.Intn(len(users))], aclPerms[r.Intn(len(aclPerms))]}
				grants = append(grants, g)
				w[g[0]+":"+g[1]] = true
			}
			if len(w) < len(grants) {
				form = "document+repeated-grant"
			} else {
				seen := map[string]bool{}
				for _, g := range grants {
					if seen[g[0]] {
						form = "document+grantee-with-several-permissions"
					}
					seen[g[0]] = true
				}
			}
			doc := grantXML(gw.RootAK, grants)
			p = cl[r.Intn(2)].Sub("PUT", b, "", "acl=", doc)
		case k < 8: // grant headers
			form = "grant-headers"
			w = map[string]bool{}
			var hdr []string
			for hi, h := range []string{"X-Amz-Grant-Read", "X-Amz-Grant-Write", "X-Amz-Grant-Read-Acp", "X-Amz-Grant-Write-Acp", "X-Amz-Grant-Full-Control"} {
				if r.Intn(3) != 0 {
					continue
				}
				var ids []string
				for _, u := range users {
					if r.Intn(2) == 0 {
						ids = append(ids, u)
						w[u+":"+aclPerms[hi]] = true
					}
				}
				if len(ids) > 0 {
					hdr = append(hdr, h, strings.Join(ids, ","))
				}
			}
			if len(hdr) == 0 {
				hdr = []string{"X-Amz-Grant-Read", users[0]}
				w[users[0]+":READ"] = true
			}
			p = cl[r.Intn(2)].Sub("PUT", b, "", "acl=", nil, hdr...)
		default:
			form = "canned:" + []string{"private", "public-read", "public-read-write"}[r.Intn(3)]
			p = cl[r.Intn(2)].Sub("PUT", b, "", "acl=", nil, "X-Amz-Acl", strings.TrimPrefix(form, "canned:"))
		}
		c.Eval(1)
		if !p.OK() {
			c.Observe("PutBucketAcl refused (" + form + "): " + p.String())
			check("after-refused-put")
			continue
		}
		want = w
		cannedSeen = nil
		c.Distinct(fmt.Sprintf("A|%s|%s", form, store))
		check("after-put")
		if n == steps/2 {
			env.Restart(0)
			env.Restart(1)
			cl = [2]*s3c.Client{env.Client(0), env.Client(1)}
			check("after-restart")
			c.Distinct("A|restart|" + store)
		}
	}
	c.Add("acl_programs", 1)
}

// Lane S: "bucket settings ... read back exactly as last written" - also while OBJECTS are written and deleted whose
// keys coincide with names the storage layout uses for itself (the sidecar store keeps the attributes of a bucket
// under <bucket>/meta/<attribute>, xattr names are user.acl, user.policy, ...). No object request is a settings
// request: after every put / multipart completion / delete of such a key, every setting and the ownership of the
// bucket must be what was last written, and the object must be an ordinary object.
func laneSettingsVsObjects(c *ev.Ctx, id string, sidecar bool) {
	if !c.Want(id) {
		return
	}
	store := "xattr"
	if sidecar {
		store = "sidecar"
	}
	env, err := fx.New("c16s", gw.Config{Sidecar: sidecar, Versioning: true}, 1)
	if err != nil {
		c.Inconclusive("gateway start: " + err.Error())
		return
	}
	defer env.Close()
	root := env.Client(0)
	if rr := env.CreateUser("alice", "alicesecret", "userplus", 0, 0); rr.Status != 201 {
		c.Inconclusive("create user: " + rr.String())
		return
	}
	alice := root.With("alice", "alicesecret")
	const b = "settings-vs-objects"
	if rr := alice.CreateBucket(b, "x-amz-object-ownership", "BucketOwnerPreferred"); !rr.OK() {
		c.Inconclusive("create bucket: " + rr.String())
		return
	}
	tagBody := s3c.TaggingXML(map[string]string{"team": "storage"})
	pol := []byte(fmt.Sprintf(`{"Version":"2012-10-17","Statement":[{"Effect":"Allow","Principal":{"AWS":["alice"]},"Action":"s3:*","Resource":["arn:aws:s3:::%s","arn:aws:s3:::%s/*"]}]}`, b, b))
	if rr := alice.Sub("PUT", b, "", "tagging=", tagBody, "Content-MD5", s3c.MD5B64(tagBody)); !rr.OK() {
		c.Inconclusive("put bucket tagging: " + rr.String())
		return
	}
	if rr := alice.Sub("PUT", b, "", "policy=", pol); !rr.OK() {
		c.Inconclusive("put bucket policy: " + rr.String())
		return
	}
	if rr := alice.PutBucketVersioning(b, "Enabled"); !rr.OK() {
		c.Inconclusive("put bucket versioning: " + rr.String())
		return
	}
	type snap struct{ acl, tags, policy, ownership, versioning, listed string }
	take := func() snap {
		var s snap
		g := alice.Sub("GET", b, "", "acl=", nil)
		var a aclGet
		xml.Unmarshal(g.Body, &a)
		s.acl = fmt.Sprintf("%d owner=%s grants=%d", g.Status, a.Owner.ID, len(a.AccessControlList.Grant))
		t := alice.Sub("GET", b, "", "tagging=", nil)
		tm, _ := s3c.ParseTagging(t.Body)
		s.tags = fmt.Sprintf("%d %v", t.Status, tm)
		p := alice.Sub("GET", b, "", "policy=", nil)
		s.policy = fmt.Sprintf("%d %s", p.Status, p.Body)
		o := alice.Sub("GET", b, "", "ownershipControls=", nil)
		s.ownership = fmt.Sprintf("%d %v", o.Status, strings.Contains(string(o.Body), "BucketOwnerPreferred"))
		v := alice.Sub("GET", b, "", "versioning=", nil)
		s.versioning = fmt.Sprintf("%d %v", v.Status, strings.Contains(string(v.Body), "<Status>Enabled</Status>"))
		l := alice.ListBuckets()
		s.listed = fmt.Sprintf("%d %v", l.Status, strings.Contains(string(l.Body), "<Name>"+b+"</Name>"))
		return s
	}
	want := take()
	if !strings.HasPrefix(want.acl, "200 owner=alice") || !strings.HasPrefix(want.tags, "200") || !strings.HasPrefix(want.policy, "200") || want.listed != "200 true" {
		c.Inconclusive(fmt.Sprintf("settings not readable after writing them: %+v", want))
		return
	}
	check := func(op, key string, resp *s3c.Resp) bool {
		c.Eval(1)
		got := take()
		if got == want {
			return true
		}
		var diffs []string
		for _, f := range [][3]string{{"acl", want.acl, got.acl}, {"tagging", want.tags, got.tags}, {"policy", want.policy, got.policy}, {"ownership-controls", want.ownership, got.ownership}, {"versioning", want.versioning, got.versioning}, {"list-buckets-of-owner", want.listed, got.listed}} {
			if f[1] != f[2] {
				diffs = append(diffs, f[0])
			}
		}
		c.Violation("settings-vs-objects:"+op+":key="+key+":"+strings.Join(diffs, "+")+"-changed["+store+"]", id, map[string]any{"operation": op, "key": key, "answer": resp.String(), "settings_written": want, "settings_read_after": got})
		return false
	}
	// the bucket holds nothing yet: a multipart upload that comes and goes (aborted, or completed and the object
	// deleted again) leaves the bucket empty once more - and in existence, with everything that was set on it
	for _, key := range []string{"only-upload", "deep/er/upload"} {
		if up, r := alice.CreateMPU(b, key); r.OK() {
			alice.UploadPart(b, key, up, 1, []byte("part of an upload that is aborted"))
			ab := alice.AbortMPU(b, key, up)
			if !check("abort-only-multipart-upload-of-an-empty-bucket", key, ab) {
				return
			}
		}
		if up, r := alice.CreateMPU(b, key); r.OK() {
			pr := alice.UploadPart(b, key, up, 1, []byte("part of an upload that is completed"))
			cr := alice.CompleteMPU(b, key, up, []s3c.Part{{N: 1, ETag: pr.Header.Get("Etag")}})
			if !check("complete-only-multipart-upload-of-an-empty-bucket", key, cr) {
				return
			}
			d := alice.DeleteObject(b, key)
			if vid := cr.Header.Get("X-Amz-Version-Id"); vid != "" {
				alice.DeleteObjectV(b, key, vid)
				if l := alice.Sub("GET", b, "", "versions=", nil); l.OK() {
					var vl struct {
						DeleteMarker []struct{ Key, VersionId string }
						Version      []struct{ Key, VersionId string }
					}
					xml.Unmarshal(l.Body, &vl)
					for _, v := range vl.DeleteMarker {
						alice.DeleteObjectV(b, v.Key, v.VersionId)
					}
					for _, v := range vl.Version {
						alice.DeleteObjectV(b, v.Key, v.VersionId)
					}
				}
			}
			if !check("delete-last-object-of-the-bucket", key, d) {
				return
			}
		}
		c.Distinct("S|upload-comes-and-goes|" + key + "|" + store)
	}
	for _, key := range []string{"data.txt", "meta", "meta/acl", "meta/policy", "acl", "policy", "user.acl", "meta/", "x/meta", "meta/meta"} {
		body := []byte("object data under " + key)
		if strings.HasSuffix(key, "/") {
			body = nil
		}
		p := alice.PutObject(b, key, body, "X-Amz-Meta-K", "v", "X-Amz-Tagging", "a=b")
		if !p.OK() {
			c.Distinct("S|put-refused|" + key + "|" + store)
			if !check("refused-put", key, p) {
				return
			}
			continue
		}
		if !check("put", key, p) {
			return
		}
		if g := alice.GetObject(b, key); !g.OK() || (body != nil && string(g.Body) != string(body)) {
			c.Violation("settings-vs-objects:put:key="+key+":acknowledged-object-unreadable["+store+"]", id, map[string]any{"get": g.String()})
		}
		if body != nil {
			if up, r := alice.CreateMPU(b, key); r.OK() {
				pr := alice.UploadPart(b, key, up, 1, body)
				cr := alice.CompleteMPU(b, key, up, []s3c.Part{{N: 1, ETag: pr.Header.Get("Etag")}})
				if !check("complete-multipart-upload", key, cr) {
					return
				}
			}
			tg := s3c.TaggingXML(map[string]string{"o": "t"})
			tr := alice.Sub("PUT", b, key, "tagging=", tg, "Content-MD5", s3c.MD5B64(tg))
			if !check("put-object-tagging", key, tr) {
				return
			}
			dt := alice.Sub("DELETE", b, key, "tagging=", nil)
			if !check("delete-object-tagging", key, dt) {
				return
			}
		}
		d := alice.DeleteObject(b, key)
		if !check("delete", key, d) {
			return
		}
		if vid := p.Header.Get("X-Amz-Version-Id"); vid != "" {
			dv := alice.DeleteObjectV(b, key, vid)
			if !check("delete-version", key, dv) {
				return
			}
		}
		c.Distinct("S|" + key + "|" + store)
	}
	if err := env.Restart(0); err == nil {
		root = env.Client(0)
		alice = root.With("alice", "alicesecret")
		check("restart", "", &s3c.Resp{})
	}
}
