package c16

import (
	"encoding/xml"
	"fmt"
	"math/rand"
	"sort"
	"strings"

	"verif/harness/internal/ev"
	"verif/harness/internal/fx"
	"verif/harness/internal/gw"
	"verif/harness/internal/s3c"
)

// Lane A: "bucket settings (..., ACL, ...) read back exactly as last written, survive restarts". Random ACLs are
// written in the three forms PutBucketAcl accepts (AccessControlPolicy document, x-amz-grant-* headers, canned
// ACL); after every accepted write the grant SET read back (through either process, and after restarts) must be
// the set written, plus the owner's FULL_CONTROL. A grantee may hold several permissions.

type aclGet struct {
	Owner             struct{ ID string }
	AccessControlList struct {
		Grant []struct {
			Grantee struct {
				ID   string
				URI  string
				Type string `xml:"type,attr"`
			}
			Permission string
		}
	}
}

var aclPerms = []string{"READ", "WRITE", "READ_ACP", "WRITE_ACP", "FULL_CONTROL"}

func grantXML(owner string, grants [][2]string) []byte {
	var sb strings.Builder
	sb.WriteString(`<AccessControlPolicy xmlns="http://s3.amazonaws.com/doc/2006-03-01/"><Owner><ID>` + owner + `</ID></Owner><AccessControlList>`)
	for _, g := range grants {
		sb.WriteString(`<Grant><Grantee xmlns:xsi="http://www.w3.org/2001/XMLSchema-instance" xsi:type="CanonicalUser"><ID>` + g[0] + `</ID></Grantee><Permission>` + g[1] + `</Permission></Grant>`)
	}
	sb.WriteString(`</AccessControlList></AccessControlPolicy>`)
	return []byte(sb.String())
}

func laneACL(c *ev.Ctx, id string, seed int64) {
	if !c.Want(id) {
		return
	}
	r := rand.New(rand.NewSource(seed))
	sidecar := seed%2 == 1
	store := "xattr"
	if sidecar {
		store = "sidecar"
	}
	env, err := fx.New("c16a", gw.Config{Sidecar: sidecar}, 2)
	if err != nil {
		c.Inconclusive("gateway start: " + err.Error())
		return
	}
	defer env.Close()
	users := []string{"grantee1", "grantee2", "grantee3"}
	for _, u := range users {
		if rr := env.CreateUser(u, u+"secret", "user", 0, 0); rr.Status != 201 {
			c.Inconclusive("create user: " + rr.String())
			return
		}
	}
	cl := [2]*s3c.Client{env.Client(0), env.Client(1)}
	b := "acl-bucket"
	if rr := cl[0].CreateBucket(b, "x-amz-object-ownership", "BucketOwnerPreferred"); !rr.OK() {
		c.Inconclusive("create bucket: " + rr.String())
		return
	}
	var want map[string]bool // user grants "id:PERM" expected; nil = unknown (canned)
	var form string
	read := func(cli *s3c.Client) (map[string]bool, *aclGet, *s3c.Resp) {
		g := cli.Sub("GET", b, "", "acl=", nil)
		var a aclGet
		if err := xml.Unmarshal(g.Body, &a); err != nil {
			return nil, nil, g
		}
		got := map[string]bool{}
		for _, gr := range a.AccessControlList.Grant {
			who := gr.Grantee.ID
			if who == "" {
				who = gr.Grantee.URI
			}
			got[who+":"+gr.Permission] = true
		}
		return got, &a, g
	}
	keys := func(m map[string]bool) []string {
		var o []string
		for k := range m {
			o = append(o, k)
		}
		sort.Strings(o)
		return o
	}
	var cannedSeen []string
	check := func(when string) {
		got, a, g := read(cl[r.Intn(2)])
		c.Eval(1)
		if got == nil || !g.OK() {
			c.Violation("acl:"+when+":not-readable["+store+"]", id, map[string]any{"get": g.String(), "body": string(g.Body), "written_as": form})
			return
		}
		if a.Owner.ID != gw.RootAK {
			c.Violation("acl:"+when+":owner-changed["+store+"]", id, map[string]any{"owner": a.Owner.ID, "written_as": form})
		}
		userGot := map[string]bool{}
		for k := range got {
			if !strings.HasPrefix(k, gw.RootAK+":") && (strings.HasPrefix(k, "grantee")) {
				userGot[k] = true
			}
		}
		if want == nil {
			// canned: no grant of an earlier ACL may survive; the answer must be stable
			if len(userGot) > 0 {
				c.Violation("acl:"+when+":grants-of-replaced-acl-survive["+store+"]", id, map[string]any{"read": keys(got), "written_as": form})
			}
			if cannedSeen != nil && strings.Join(cannedSeen, ",") != strings.Join(keys(got), ",") {
				c.Violation("acl:"+when+":canned-acl-reads-differently-over-time["+store+"]", id, map[string]any{"first": cannedSeen, "now": keys(got), "written_as": form})
			}
			cannedSeen = keys(got)
			return
		}
		var missing, extra []string
		for k := range want {
			if !userGot[k] {
				missing = append(missing, k)
			}
		}
		for k := range userGot {
			if !want[k] {
				extra = append(extra, k)
			}
		}
		sort.Strings(missing)
		sort.Strings(extra)
		det := map[string]any{"written": keys(want), "read": keys(got), "written_as": form}
		if len(missing) > 0 {
			det["missing"] = missing
			c.Violation("acl:"+when+":written-grant-missing:"+form+"["+store+"]", id, det)
		}
		if len(extra) > 0 {
			det["extra"] = extra
			c.Violation("acl:"+when+":grant-never-written:"+form+"["+store+"]", id, det)
		}
		if !got[gw.RootAK+":FULL_CONTROL"] {
			c.Violation("acl:"+when+":owner-lost-full-control["+store+"]", id, det)
		}
	}
	steps := 10 + r.Intn(8)
	for n := 0; n < steps; n++ {
		var p *s3c.Resp
		var w map[string]bool
		switch k := r.Intn(10); {
		case k < 5: // document; one grantee may appear several times
			form = "document"
			var grants [][2]string
			w = map[string]bool{}
			for i := 0; i < 1+r.Intn(5); i++ {
				g := [2]string{users[r.Intn(len(users))], aclPerms[r.Intn(len(aclPerms))]}
				grants = append(grants, g)
				w[g[0]+":"+g[1]] = true
			}
			if len(w) < len(grants) {
				form = "document+repeated-grant"
			} else {
				seen := map[string]bool{}
				for _, g := range grants {
					if seen[g[0]] {
						form = "document+grantee-with-several-permissions"
					}
					seen[g[0]] = true
				}
			}
			doc := grantXML(gw.RootAK, grants)
			p = cl[r.Intn(2)].Sub("PUT", b, "", "acl=", doc)
		case k < 8: // grant headers
			form = "grant-headers"
			w = map[string]bool{}
			var hdr []string
			for hi, h := range []string{"X-Amz-Grant-Read", "X-Amz-Grant-Write", "X-Amz-Grant-Read-Acp", "X-Amz-Grant-Write-Acp", "X-Amz-Grant-Full-Control"} {
				if r.Intn(3) != 0 {
					continue
				}
				var ids []string
				for _, u := range users {
					if r.Intn(2) == 0 {
						ids = append(ids, u)
						w[u+":"+aclPerms[hi]] = true
					}
				}
				if len(ids) > 0 {
					hdr = append(hdr, h, strings.Join(ids, ","))
				}
			}
			if len(hdr) == 0 {
				hdr = []string{"X-Amz-Grant-Read", users[0]}
				w[users[0]+":READ"] = true
			}
			p = cl[r.Intn(2)].Sub("PUT", b, "", "acl=", nil, hdr...)
		default:
			form = "canned:" + []string{"private", "public-read", "public-read-write"}[r.Intn(3)]
			p = cl[r.Intn(2)].Sub("PUT", b, "", "acl=", nil, "X-Amz-Acl", strings.TrimPrefix(form, "canned:"))
		}
		c.Eval(1)
		if !p.OK() {
			c.Observe("PutBucketAcl refused (" + form + "): " + p.String())
			check("after-refused-put")
			continue
		}
		want = w
		cannedSeen = nil
		c.Distinct(fmt.Sprintf("A|%s|%s", form, store))
		check("after-put")
		if n == steps/2 {
			env.Restart(0)
			env.Restart(1)
			cl = [2]*s3c.Client{env.Client(0), env.Client(1)}
			check("after-restart")
			c.Distinct("A|restart|" + store)
		}
	}
	c.Add("acl_programs", 1)
}
