//go:build !solo || solo_c07

package props

import _ "verif/harness/props/c07"
