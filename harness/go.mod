module verif/harness

go 1.23.0

require (
	github.com/anishathalye/porcupine v1.3.0
	github.com/aws/aws-sdk-go-v2 v1.36.3
	github.com/aws/aws-sdk-go-v2/config v1.29.14
	github.com/aws/aws-sdk-go-v2/credentials v1.17.67
	github.com/aws/aws-sdk-go-v2/service/s3 v1.79.2
	github.com/gofiber/fiber/v2 v2.52.6
	github.com/valyala/fasthttp v1.60.0
	github.com/versity/versitygw v0.0.0
	golang.org/x/sys v0.32.0
)

require (
	github.com/Azure/go-ntlmssp v0.0.0-20221128193559-754e69321358 // indirect
	github.com/andybalholm/brotli v1.1.1 // indirect
	github.com/aws/aws-sdk-go-v2/aws/protocol/eventstream v1.6.10 // indirect
	github.com/aws/aws-sdk-go-v2/feature/ec2/imds v1.16.30 // indirect
	github.com/aws/aws-sdk-go-v2/feature/s3/manager v1.17.72 // indirect
	github.com/aws/aws-sdk-go-v2/internal/configsources v1.3.34 // indirect
	github.com/aws/aws-sdk-go-v2/internal/endpoints/v2 v2.6.34 // indirect
	github.com/aws/aws-sdk-go-v2/internal/ini v1.8.3 // indirect
	github.com/aws/aws-sdk-go-v2/internal/v4a v1.3.34 // indirect
	github.com/aws/aws-sdk-go-v2/service/internal/accept-encoding v1.12.3 // indirect
	github.com/aws/aws-sdk-go-v2/service/internal/checksum v1.7.0 // indirect
	github.com/aws/aws-sdk-go-v2/service/internal/presigned-url v1.12.15 // indirect
	github.com/aws/aws-sdk-go-v2/service/internal/s3shared v1.18.15 // indirect
	github.com/aws/aws-sdk-go-v2/service/sso v1.25.3 // indirect
	github.com/aws/aws-sdk-go-v2/service/ssooidc v1.30.1 // indirect
	github.com/aws/aws-sdk-go-v2/service/sts v1.33.19 // indirect
	github.com/aws/smithy-go v1.22.3 // indirect
	github.com/go-asn1-ber/asn1-ber v1.5.8-0.20250403174932-29230038a667 // indirect
	github.com/go-ldap/ldap/v3 v3.4.11 // indirect
	github.com/google/uuid v1.6.0 // indirect
	github.com/hashicorp/go-cleanhttp v0.5.2 // indirect
	github.com/hashicorp/go-retryablehttp v0.7.7 // indirect
	github.com/hashicorp/go-rootcerts v1.0.2 // indirect
	github.com/hashicorp/go-secure-stdlib/strutil v0.1.2 // indirect
	github.com/hashicorp/vault-client-go v0.4.3 // indirect
	github.com/klauspost/compress v1.18.0 // indirect
	github.com/mattn/go-colorable v0.1.14 // indirect
	github.com/mattn/go-isatty v0.0.20 // indirect
	github.com/mattn/go-runewidth v0.0.16 // indirect
	github.com/rivo/uniseg v0.4.7 // indirect
	github.com/ryanuber/go-glob v1.0.0 // indirect
	github.com/valyala/bytebufferpool v1.0.0 // indirect
	golang.org/x/crypto v0.37.0 // indirect
	golang.org/x/time v0.11.0 // indirect
)

replace github.com/versity/versitygw => /repo
