package main

import (
	"fmt"

	"verif/harness/internal/fx"
	"verif/harness/internal/gw"
	"verif/harness/internal/s3c"
)

func main() {
	env, err := fx.New("probe", gw.Config{Versioning: true}, 1)
	if err != nil {
		panic(err)
	}
	defer env.Close()
	cl := env.Client(0)
	fmt.Println(cl.CreateBucket("probe-bucket"))
	fmt.Println(cl.PutBucketVersioning("probe-bucket", "Enabled"))
	p1 := cl.PutObject("probe-bucket", "dir/k", []byte("one"), "X-Amz-Tagging", "a=b")
	v1 := p1.Header.Get("X-Amz-Version-Id")
	fmt.Println("put1", p1, v1)
	tb := s3c.TaggingXML(map[string]string{"followup": "x"})
	fmt.Println("tag", cl.Sub("PUT", "probe-bucket", "dir/k", "tagging=", tb, "Content-MD5", s3c.MD5B64(tb)))
	t0 := cl.Do(&s3c.Req{Method: "GET", Path: s3c.ObjPath("probe-bucket", "dir/k"), Query: "tagging=&" + s3c.Q("versionId", v1)})
	fmt.Println("tags of current by id", t0, string(t0.Body))
	p2 := cl.PutObject("probe-bucket", "dir/k", []byte("two"))
	fmt.Println("put2", p2, p2.Header.Get("X-Amz-Version-Id"))
	t1 := cl.Do(&s3c.Req{Method: "GET", Path: s3c.ObjPath("probe-bucket", "dir/k"), Query: "tagging=&" + s3c.Q("versionId", v1)})
	fmt.Println("tags of archived by id", t1, string(t1.Body))
	g := cl.GetObjectV("probe-bucket", "dir/k", v1)
	fmt.Println("get archived", g, string(g.Body))
}
