package main

import (
	"fmt"

	"verif/harness/internal/fx"
	"verif/harness/internal/gw"
	"verif/harness/internal/s3c"
)

func main() {
	env, err := fx.New("probe", gw.Config{Versioning: true, Sidecar: false}, 1)
	if err != nil {
		panic(err)
	}
	defer env.Close()
	cl := env.Client(0)
	b := "probe-bucket"
	fmt.Println(cl.CreateBucket(b), cl.PutBucketVersioning(b, "Enabled"))
	p1 := cl.PutObject(b, "k", []byte("one"), "X-Amz-Tagging", "gen=one", "X-Amz-Meta-Gen", "one")
	v1 := p1.Header.Get("X-Amz-Version-Id")
	tb := s3c.TaggingXML(map[string]string{"gen": "one-retagged"})
	fmt.Println("retag", cl.Sub("PUT", b, "k", "tagging=", tb, "Content-MD5", s3c.MD5B64(tb)))
	p2 := cl.PutObject(b, "k", []byte("two"), "X-Amz-Tagging", "gen=two", "X-Amz-Meta-Gen", "two")
	fmt.Println("put", p1, v1, p2)
	tk := cl.Sub("GET", b, "k", "tagging=", nil)
	fmt.Println("tags of k now", tk, string(tk.Body))
	fmt.Println("dst first", cl.PutObject(b, "copy", []byte("old dst"), "X-Amz-Tagging", "dst=old"))
	c := cl.Do(&s3c.Req{Method: "PUT", Path: s3c.ObjPath(b, "copy"), Header: s3c.H{{"X-Amz-Copy-Source", b + "/k?versionId=" + v1}, {"X-Amz-Tagging", "supplied=ignored"}, {"X-Amz-Tagging-Directive", "COPY"}, {"X-Amz-Metadata-Directive", "COPY"}, {"X-Amz-Meta-Gen", "supplied"}}})
	fmt.Println("copy", c, string(c.Body))
	g := cl.GetObject(b, "copy")
	fmt.Println("get copy", g, string(g.Body), g.Header.Get("X-Amz-Meta-Gen"))
	t := cl.Sub("GET", b, "copy", "tagging=", nil)
	fmt.Println("tags of copy", t, string(t.Body))
}
