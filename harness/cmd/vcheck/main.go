// vcheck runs one property check: vcheck <Cxx>
// Environment: VERIF_TIER, VERIF_SEED, VERIF_ONLY (replay filter), VERIF_SCRATCH.
package main

import (
	"fmt"
	"os"
	"sort"

	"verif/harness/internal/ev"
	"verif/harness/internal/reg"
	_ "verif/harness/props"
)

func main() {
	if len(os.Args) < 2 {
		var ids []string
		for id := range reg.All {
			ids = append(ids, id)
		}
		sort.Strings(ids)
		fmt.Println("usage: vcheck <property>; known:", ids)
		os.Exit(2)
	}
	id := os.Args[1]
	ck, ok := reg.All[id]
	if !ok {
		fmt.Fprintf(os.Stderr, "no check registered for %s\n", id)
		os.Exit(2)
	}
	c := ev.New(id, ck.Level)
	os.Exit(ck.Run(c))
}
